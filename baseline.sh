#!/bin/bash
# Runs the repository's own test suite with the verification guard OFF (no --cfg at
# all) and checks that every test of the stable baseline passes.
set -u
cd /repo
export CARGO_NET_OFFLINE=true
out=$(cargo test --workspace --no-fail-fast --offline --tests 2>&1)
echo "$out" | grep -E "^test result|FAILED|failed" 
python3 - "$out" <<'PY'
import json,re,sys
out=sys.argv[1]
base=json.load(open('/root/.vp/BASELINE.json'))
stable=set(t.split('::',1)[1] for t in base['stable_pass'])
# cargo prints "Running tests/handler.rs (...)" then "test name ... ok"
cur=None; ok=set(); bad=set()
for line in out.splitlines():
    m=re.search(r'Running (?:unittests )?(\S+)',line)
    if m:
        cur=m.group(1).split('/')[-1].replace('.rs','')
    m=re.match(r'test (\S+)(?: - should panic)? \.\.\. (\w+)',line)
    if m and cur:
        (ok if m.group(2)=='ok' else bad).add(f"{cur}::{m.group(1)}")
missing=sorted(stable-ok)
print(f"baseline: {len(stable&ok)}/{len(stable)} stable tests passed")
if missing:
    print("NOT PASSING:",missing); sys.exit(1)
PY
