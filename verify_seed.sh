#!/bin/bash
# verify_seed.sh <worktree> : confirms a seeded change in its scratch worktree:
#  demo fails with the change, passes without it, existing stable suite passes with it.
# Prints one summary line; exit 0 iff all three hold.
set -u
wt="$1"; cd "$wt" || exit 2
export CARGO_NET_OFFLINE=true CARGO_TARGET_DIR="$wt/target"
git diff -- src/ > /tmp/.vs.$$.diff
if [ ! -s /tmp/.vs.$$.diff ]; then git apply patch.diff || { echo "$wt: cannot apply patch.diff"; exit 2; }; fi
demo_with=$(cargo test --offline --test seeded_demo 2>&1 | grep -E "^test result" | tail -1)
suite=$(cargo test --offline --tests --no-fail-fast 2>&1)
python3 - "$suite" <<'PY' > /tmp/.vs.$$.suite
import json,re,sys
out=sys.argv[1]
base=json.load(open('/root/.vp/BASELINE.json'))
stable=set(t.split('::',1)[1] for t in base['stable_pass'])
cur=None; ok=set()
for line in out.splitlines():
    m=re.search(r'Running (?:unittests )?(\S+)',line)
    if m: cur=m.group(1).split('/')[-1].replace('.rs','')
    m=re.match(r'test (\S+)(?: - should panic)? \.\.\. (\w+)',line)
    if m and cur and m.group(2)=='ok': ok.add(f"{cur}::{m.group(1)}")
missing=sorted(stable-ok)
print("suite_ok" if not missing else "suite_FAIL "+",".join(missing))
PY
# (not `git stash`: the stash is shared by all worktrees of a repository)
git diff -- src/ > /tmp/.vs.$$.cur
git apply -R /tmp/.vs.$$.cur
demo_without=$(cargo test --offline --test seeded_demo 2>&1 | grep -E "^test result" | tail -1)
git apply /tmp/.vs.$$.cur; rm -f /tmp/.vs.$$.cur
rm -f /tmp/.vs.$$.diff
s=$(cat /tmp/.vs.$$.suite); rm -f /tmp/.vs.$$.suite
echo "$wt | with: $demo_with | without: $demo_without | $s"
case "$demo_with" in *FAILED*) a=1;; *) a=0;; esac
case "$demo_without" in *"ok."*) b=1;; *) b=0;; esac
case "$s" in suite_ok*) c=1;; *) c=0;; esac
[ $a = 1 ] && [ $b = 1 ] && [ $c = 1 ]
