#!/bin/bash
# seedtest.sh <patch.diff> <ID> [more IDs]: applies a seeded change to /repo, runs the
# quick checks, and ALWAYS reverts /repo afterwards. Prints caught / MISSED per check.
set -u
patch="$1"; shift
cd /repo || exit 2
if [ -n "$(git status --porcelain -- src)" ]; then echo "/repo/src is dirty, refusing"; exit 2; fi
if ! git apply "$patch"; then echo "patch does not apply: $patch"; exit 2; fi
bak=$(mktemp -d /dev/shm/seedtest-ev.XXXXXX)
cp -a /verif/evidence/. "$bak"/ 2>/dev/null
# evidence written while a seeded change is applied says nothing about the real tree: restore it
trap 'git -C /repo checkout -- . ; find /verif/replays -name "*.json" -delete; cp -a "$bak"/. /verif/evidence/ 2>/dev/null; rm -rf "$bak"' EXIT
for id in "$@"; do
  out=$(cd /verif && VERIF_SCALE="${VERIF_SCALE:-1}" ./check "$id" "${TIER:-quick}" 2>&1); rc=$?
  if [ $rc -eq 1 ]; then echo "$id: caught  $(echo "$out" | grep -m1 'clause=')"
  elif [ $rc -eq 0 ]; then echo "$id: MISSED  $(echo "$out" | tail -1)"
  else echo "$id: harness error rc=$rc $(echo "$out" | tail -3)"; fi
done
