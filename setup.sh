#!/bin/bash
# Offline build of the simulator workspace (also done by every ./check invocation).
set -e
here="$(cd "$(dirname "$0")" && pwd)"
cd "$here/sim"
export CARGO_NET_OFFLINE=true
cargo build --release --offline
RUSTFLAGS="--cfg servlin_verif" CARGO_TARGET_DIR="$here/target-hooks" cargo build --release --offline
