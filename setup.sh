#!/bin/bash
# Offline build of the simulator workspace (also done by every ./check invocation).
set -e
cd "$(dirname "$0")/sim"
export CARGO_NET_OFFLINE=true
cargo build --release --offline
