#!/bin/bash
# seedall.sh: runs every stored seeded change against the quick check of the property it
# breaks (apply to /repo, check, revert) and prints a table. Exit 0 iff all are caught.
cd "$(dirname "$0")"
export VERIF_WATCHDOG_SECS="${VERIF_WATCHDOG_SECS:-20}"
rc=0
for d in seeded/*/; do
  n=$(basename "$d")
  id=$(python3 -c "import json;print(json.load(open('$d/meta.json'))['breaks_property'])")
  out=$(./seedtest.sh "$(pwd)/$d/patch.diff" "$id" 2>&1 | cut -c1-220)
  echo "$n -> $out"
  case "$out" in *caught*) ;; *) rc=1;; esac
done
if [ -n "$(git -C /repo status --porcelain -- src)" ]; then echo "WARNING: /repo/src is dirty"; rc=2; fi
exit $rc
