#!/bin/bash
# seedall.sh: runs every stored seeded change against the quick check of the property it
# breaks (meta.json "check_with" names another check where the change really breaks that
# property's clause; "expected": "not_caught" marks the changes DESIGN.md 9.5 explains) -
# apply to /repo, check, revert - and prints a table. Exit 0 iff every result is as expected.
cd "$(dirname "$0")"
export VERIF_WATCHDOG_SECS="${VERIF_WATCHDOG_SECS:-20}"
rc=0
for d in seeded/${1:-*}/; do
  n=$(basename "$d")
  id=$(python3 -c "import json;m=json.load(open('$d/meta.json'));print(m.get('check_with',m['breaks_property']))")
  exp=$(python3 -c "import json;m=json.load(open('$d/meta.json'));print(m.get('expected','caught'))")
  out=$(./seedtest.sh "$(pwd)/$d/patch.diff" $id 2>&1 | cut -c1-220)
  echo "$n [$exp] -> $out"
  case "$exp:$out" in
    caught:*caught*) ;;
    not_caught:*MISSED*) ;;
    *) rc=1; echo "   ^^^ UNEXPECTED";;
  esac
done
if [ -n "$(git -C /repo status --porcelain -- src)" ]; then echo "WARNING: /repo/src is dirty"; rc=2; fi
exit $rc
