#!/bin/bash
# benigntest.sh <benign.diff> [IDs...]: applies a property-PRESERVING change to /repo, runs the
# quick checks (all claimed ones by default) and ALWAYS reverts /repo afterwards. Every check
# must stay quiet: prints "quiet" / "ALARM" / "harness error" per check. Exit 0 iff all quiet.
set -u
patch="$1"; shift
ids=("$@"); [ ${#ids[@]} -eq 0 ] && ids=(C01 C03 C04 C05 C06 C07 C08 C09 C10 C11 C12 C13 C18 C19)
cd /repo || exit 2
if [ -n "$(git status --porcelain -- src)" ]; then echo "/repo/src is dirty, refusing"; exit 2; fi
if ! git apply "$patch"; then echo "patch does not apply: $patch"; exit 2; fi
bak=$(mktemp -d /dev/shm/benign-ev.XXXXXX)
cp -a /verif/evidence/. "$bak"/ 2>/dev/null
keep="${KEEP_REPLAYS:-}"
trap 'git -C /repo checkout -- . ; [ -z "$keep" ] && find /verif/replays -name "*.json" -delete; cp -a "$bak"/. /verif/evidence/ 2>/dev/null; rm -rf "$bak"' EXIT
rc_all=0
for id in "${ids[@]}"; do
  out=$(cd /verif && VERIF_SCALE="${VERIF_SCALE:-1}" ./check "$id" "${TIER:-quick}" 2>&1); rc=$?
  if [ $rc -eq 0 ]; then echo "$id: quiet"
  elif [ $rc -eq 1 ]; then echo "$id: ALARM  $(echo "$out" | grep -m1 'clause=' | cut -c1-600)"; rc_all=1
  else echo "$id: harness error rc=$rc $(echo "$out" | tail -3 | cut -c1-400)"; rc_all=1; fi
done
exit $rc_all
