#!/bin/bash
# runall.sh [quick|thorough]: every claimed check, one after the other; summary at the end.
cd "$(dirname "$0")"
tier="${1:-quick}"; rc_all=0
for id in C01 C03 C04 C05 C06 C07 C08 C09 C10 C11 C12 C13 C18 C19; do
  s=$(date +%s.%N)
  out=$(./check $id $tier 2>&1); rc=$?
  e=$(date +%s.%N)
  printf "%s rc=%d %.1fs  %s\n" $id $rc $(echo "$e - $s" | bc) "$(echo "$out" | grep -E "^$id $tier" | tail -1)"
  [ $rc -ne 0 ] && { rc_all=1; echo "$out" | grep -E "VIOLATION|HARNESS|clause=" | head -5; }
done
exit $rc_all
