#!/usr/bin/env python3
"""Regenerates MANIFEST.json from the table below (kept next to the code so the two stay in step)."""
import json, subprocess

FIX_COMMITS = []  # fix: commits live in /repo's history; listed in known_findings.json
HOOK_COMMITS = [l.strip() for l in open('/verif/hook_commits.txt')] if __import__('os').path.exists('/verif/hook_commits.txt') else []

CLAIMED = {
 "C04": dict(cat="exploration", sec="3 C04", engine="server",
   text="Seeded simulation of the real server (accept loop, token set, connection tasks, blocking-job wrapper) with 1-3 scripted clients per run sending 1-12 generated requests each; every interleaving choice (task polls, handler start/finish, client fragments, short socket I/O, spurious Pending) comes from one PRNG. A sequential reference model of one connection decides the handler invocation log (count, order, pending flag, body bytes), the parsed client transcript and the close point. Sampling, not proof: a clean batch is evidence over the schedules and request sequences drawn.",
   note="Trusted: the simulated TCP/executor/job seams (sim/sim-*), the strict response parser and the connection model in harness/src/scen/httpgen.rs. Handlers act only through their return value; unbounded blocking pool.",
   technique="deterministic simulation: seeded scheduler over real server tasks + simulated TCP; sequential reference model as oracle"),
 "C13": dict(cat="exploration", sec="3 C13", engine="server",
   text="Seeded simulation of the real server with a revocable permit; clients in mixed phases never close by themselves; the revocation is one more scheduler action placed at a tape-chosen step, so it lands at every await point of the accept loop and connection tasks, including 'all slots held by idle connections'. Safety clauses are checked on the event history (stop never before revoke, listener released before the stopped signal, no service after stop, at most one further request per connection, in-flight responses complete); liveness is decided by quiescence, not by a timeout.",
   note="Trusted: simulator seams and the quiescence detector (no runnable task, no startable/finishable job, no enabled client step, no timer). 'Bounded time' = before quiescence.",
   technique="deterministic simulation: revocation injected at seeded scheduler steps; history checks + liveness by quiescence"),
}

NA = {
 "C02": "pure function of the head bytes (Head::try_read): no schedule, clock, fault or interleaving; its one schedule-dependent clause (split independence, nothing consumed past the head) is decided under C01",
 "C14": "pure data structure (HeaderList is a Vec wrapper) driven by its caller: nothing for a simulator to own",
 "C15": "pure string functions (cookie header loop, Cookie formatting): no schedule, fault or I/O",
 "C16": "pure integer function of its argument (DateTime::new / Add): the clock only supplies the argument",
 "C17": "pure serialiser (LogEvent::write_jsonl) of its tags: no schedule, fault or I/O",
 "C20": "pure constructors and From<HttpError>: the one clause with I/O in it (5xx => connection: close) is observed inside other checks' wire oracles but C20 itself is not decided by simulation",
}
# properties not yet built are listed as not applicable *yet* with an honest reason
PENDING = {
 "C01": "not yet built in this commit (planned: stream engine, DESIGN.md 3 C01)",
 "C03": "not yet built in this commit (planned: server engine)",
 "C05": "not yet built in this commit (planned: conn engine)",
 "C06": "not yet built in this commit (planned: stream engine)",
 "C07": "not yet built in this commit (planned: stream engine)",
 "C08": "not yet built in this commit (planned: stream + server engine)",
 "C09": "not yet built in this commit (planned: server engine)",
 "C10": "not yet built in this commit (planned: server engine)",
 "C11": "not yet built in this commit (planned: sse engine)",
 "C12": "not yet built in this commit (planned: server engine)",
 "C18": "not yet built in this commit (planned: threads engine)",
 "C19": "not yet built in this commit (planned: logwriter engine)",
}

def main():
    checks=[]
    for pid,c in sorted(CLAIMED.items()):
        checks.append({
          "property_id": pid,
          "quick_cmd": f"./check {pid} quick",
          "thorough_cmd": f"./check {pid} thorough",
          "evidence_file": f"evidence/{pid}.json",
          "replay_cmd_template": "./check replay {path}",
          "engine": c["engine"],
          "level_claimed": {"category": c["cat"], "text": c["text"], "design_ref": "DESIGN.md section "+c["sec"]},
          "level_note": c["note"],
          "technique": c["technique"],
        })
    na=[{"property_id":k,"reason":v} for k,v in sorted({**NA, **PENDING}.items())]
    m={
      "version": 1,
      "setup_cmd": "./setup.sh",
      "hooks": {
        "guard": "servlin_verif",
        "enable": "RUSTFLAGS='--cfg servlin_verif' (passed by ./check for the log-writer engine only; every other engine compiles /repo/src with no cfg at all)",
        "baseline_off_cmd": "./baseline.sh",
        "source_commits": HOOK_COMMITS,
        "add_only": True,
      },
      "engines": [
        {"name":"server","path":"sim/harness/src/engine/server.rs","serves_properties":["C03","C04","C09","C10","C12","C13"],"kind_free_text":"real HttpServerBuilder::spawn inside simulated executor + TCP + file I/O; seeded scheduler; quiescence detection"},
      ],
      "checks": checks,
      "not_applicable": na,
      "notes": "All checks: cwd=/verif, honour VERIF_SEED (default fixed), rebuild /repo/src from the working tree via the shadow manifest sim/servlin-shadow, exit 0 clean / 1 VIOLATION / 2 harness error. known_findings.json is read-only at run time.",
    }
    json.dump(m,open('/verif/MANIFEST.json','w'),indent=1)
    print("claimed",len(checks),"not_applicable",len(na))
main()
