#!/usr/bin/env python3
"""Regenerates MANIFEST.json from the table below (kept next to the code so the two stay in step)."""
import json, subprocess

FIX_COMMITS = []  # fix: commits live in /repo's history; listed in known_findings.json
HOOK_COMMITS = [l.strip() for l in open('/verif/hook_commits.txt')] if __import__('os').path.exists('/verif/hook_commits.txt') else []

CLAIMED = {
 "C01": dict(cat="exploration", sec="3 C01", engine="stream",
   text="Seeded simulation of the byte stream under the real read_http_head / read_http_request (FixedBuf<64|256|8192>): grammar-derived and mutated heads, an exhaustive corpus of every string of <= 6 symbols over a reduced alphabet, every single (and, thorough, double) split point for short inputs, random partitions with spurious Pending otherwise, end of stream (EOF or error) after every prefix for short inputs; plus the same bytes through the real connection task in the simulated server with FIN/RST at an offset. Oracle: termination within a poll cap, no panic, documented error class, a position-of-first-CRLFCRLF consumption model, identical outcome and leftover under every partition (metamorphic), response-or-EOF and slot returned at connection level. Heads also contain long lines (40-200 bytes) with multi-byte UTF-8 sequences and stray high bytes at every alignment; read errors are drawn from 15 kinds. The mutator also plants the first bytes of other protocols (TLS ClientHello, HTTP/2 preface, SSH, SOCKS, PROXY).",
   note="Trusted: scripted reader, FixedBuf, the consumption model (about 20 lines), the simulated TCP for the connection level. Sampling beyond the exhaustive corpus/split stages.",
   technique="deterministic simulation of the read stream: enumerated + seeded partitions and end-of-stream points; metamorphic split-independence and consumption model"),
 "C03": dict(cat="exploration", sec="3 C03", engine="server",
   text="Histories of 1-8 messages on one simulated connection to the real server; an independent framing model (a function of method, Content-Length multiset and Transfer-Encoding multiset) folds them into the exact handler log and responses; bodies are filled with decoy request heads so any mis-framing surfaces as a handler run attributable to body bytes. Delivery schedules (pipelined, ping-pong, byte-wise, random fragments, short reads) come from the seeded scheduler. A second stage drives HttpConn directly with ONE transient (EINTR-like) read error at every stream offset of a sized request + pipelined request: giving up and a correct retry are both accepted, a body of another length than Content-Length or a mis-placed next request is not. One message in forty carries 100-140 other fields in front of its framing fields; Content-Length values with control bytes next to the digits.",
   note="Trusted: simulator seams, the framing model and connection model in harness/src/scen/{c03,httpgen}.rs. Combinations the statement does not pin are not generated.",
   technique="deterministic simulation: seeded delivery schedules over real server; independent framing reference model; decoy-based smuggling detector"),
 "C04": dict(cat="exploration", sec="3 C04", engine="server",
   text="Seeded simulation of the real server (accept loop, token set, connection tasks, blocking-job wrapper) with 1-3 scripted clients per run sending 1-12 generated requests each, plus long-lived pipelined connections whose cumulative bytes pass the 8 KiB connection buffer several times; every interleaving choice comes from one PRNG. A sequential reference model of one connection decides the handler invocation log (count, order, pending flag, body bytes), the parsed client transcript and the close point. Bodies also straddle the 8 KiB connection buffer. Half of the pipelining clients keep their side open until they have their answers; virtual time may pass at any scheduler step (a timer a change introduces can fire mid-exchange).",
   note="Trusted: the simulated TCP/executor/job seams (sim/sim-*), the strict response parser and the connection model in harness/src/scen/httpgen.rs. Handlers act only through their return value; unbounded blocking pool.",
   technique="deterministic simulation: seeded scheduler over real server tasks + simulated TCP; sequential reference model as oracle"),
 "C05": dict(cat="exploration", sec="3 C05", engine="conn",
   text="HttpConn methods called directly over the simulated socket: EVERY program of depth <= 4 (quick) / <= 5 (thorough) over 15 operations x 13 client scripts, plus sampled programs of depth 1-7 under interleaved delivery where client bytes are fed only when a call waits and clients withhold the body until they see 100 Continue (a lost interim response is a stall verdict). An explicit-state reference model predicts result, both protocol states, is_ready(), write-side shutdown and the wire bytes after every call. 14 scripts incl. Expect + Connection: close; sampled programs also write a response whose file body is shorter than declared (failure after the head went out). Also a response whose body file does not exist.",
   note="Trusted: the reference model (written from the doc comments and the statement; cells the documentation leaves open are marked Free), simulated socket.",
   technique="deterministic simulation of the socket under enumerated + sampled API programs; explicit-state reference model checked call by call"),
 "C06": dict(cat="exploration", sec="3 C06", engine="stream",
   text="write_http_response into a scripted sink whose every decision (bytes accepted per call, Pending, flush Pending) and the file reader's (short reads, Pending) come from the tape; responses generated over the whole input class incl. colliding framing names once and twice and bodies around 64 KiB..3 MiB. An independent strict response parser must recover status, application fields in order and body; automatic-field and refusal rules; byte-identical output under a second sink schedule (metamorphic). File bodies are in a quarter of the runs longer on disk than their recorded length; event streams mix chunk sizes of 1-4 hex digits; one small run in ten has a single transient Interrupted error in the sink (a serialiser that reports success must then have produced exactly the right bytes). Sinks implement poll_write_vectored with writev semantics; event streams include 30-40 KB events queued together.",
   note="Trusted: strict response parser + chunked decoder in harness/src/oracle, scripted sink, simulated async-fs over real files.",
   technique="deterministic simulation of sink and file reader schedules; independent parser round-trip + metamorphic schedule independence"),
 "C07": dict(cat="fault_enumeration", sec="3 C07", engine="stream",
   text="copy_chunked_async with scripted source and sink: every piece length 1..=65528 (exhaustive for the size line), random/adversarial piece sequences up to 1 MiB with short writes and Pending, a source error enumerated over every chunk boundary, a sink error at every chunk boundary +-1 and drawn offsets. Independent strict decoder; no terminator after a source error; accepted bytes are a prefix of the fault-free output. Errors are drawn from 15 kinds; source errors may be one-shot (the source then goes on), and transient Interrupted errors on either side accept both giving up and a correct retry. Sinks implement poll_write_vectored with writev semantics.",
   note="Trusted: the chunked decoder (about 100 lines), scripted source/sink.",
   technique="deterministic simulation with enumerated fault points (source/sink errors at every chunk boundary) and exhaustive piece-length sweep"),
 "C08": dict(cat="fault_enumeration", sec="3 C08", engine="stream+conn+server",
   text="The same fault plans at three levels: serialiser with a sink that fails after exactly k bytes for EVERY k, body files missing / unreadable / read error at offset / truncated; HttpConn::write_response followed by further calls; the full simulated server with server-side write errors, client RST and FIN-and-stop-reading at offsets, body-file faults. R = fault-free serialisation from a second execution; the wire is a prefix of R; after a partial send the write side is shut and nothing else is written; after a zero-byte failure one well-formed 500 is still possible. Error kinds from 15 kinds; one fault in eight is a transient Interrupted error at each level, accepted as give-up (prefix + shutdown rules) or correct retry (exactly the correct bytes), never resent bytes; file bodies longer than recorded. Body files may be truncated by another process while they are read; sinks and the simulated socket implement writev semantics; virtual time may pass at any step of the server stage.",
   note="Trusted: simulator seams, metamorphic reference R (a second run of the same code fault-free), strict parser.",
   technique="deterministic simulation with fault enumeration over every byte offset of the response and every body-source fault"),
 "C09": dict(cat="exploration", sec="3 C09", engine="server",
   text="The full cross product S x M x L x declared/undeclared x Expect x handler mechanism x cache dir (4608 cells) against the real server in simulation, each cell under several fragmentation/short-I/O/scheduling draws, plus freely sampled S, M with L near the boundaries; clients that send Expect wait for the interim response. Reference decision table + resource invariants read from the simulated file layer. Further stages/cases: 2-4 uploads to ONE path on one connection with per-request limits (with one EINTR on the socket in a share of the runs), declared uploads cut short by the client (never handed over), S up to usize::MAX. Undeclared-length uploads cut by a client reset (ECONNRESET reported once, then end of stream).",
   note="Trusted: simulator seams, decision table in httpgen.rs::model_conn, byte accounting in sim-async-fs. Bodies clamped to 200 KiB. Built with overflow checks so wrap-around is a task panic.",
   technique="deterministic simulation: enumerated configuration cross product x seeded schedules; reference decision table + resource accounting"),
 "C10": dict(cat="fault_enumeration", sec="3 C10", engine="server",
   text="1-4 concurrent uploads to the real server with a real cache directory, each cut by a drawn fault sequence: client FIN/RST/close at an offset class, disk write/close/create failures, body over the limit, handler outcome after receipt, cache dir removed mid-run, permit revoked, connection-task cancellation at a tape-chosen step. The oracle reads the real directory after every scheduler step and at quiescence. Handler outcomes include an application that keeps a clone of the request body; a second stage answers uploads with an endless event stream whose client stays, leaves or resets. A file may exist only while the server holds an open connection (after an injected task cancellation also while a handler job runs). Uploads of up to 0.7 MB; every upload must end (answered or connection closed).",
   note="Trusted: simulator seams; files attributed to requests by liveness (any request in progress), not by name.",
   technique="deterministic simulation with fault injection inside uploads (disconnect offsets, disk errors, task cancellation); per-step directory invariant"),
 "C11": dict(cat="exploration", sec="3 C11", engine="sse",
   text="Response::event_stream with the real bounded channel, senders, receiver, response writer and chunked encoder; the writer future is polled by hand between sender steps and only when its waker fired; EVERY interleaving of up to 5 (quick) / 7 (thorough) steps over {writer poll, send, clone, disconnect, drop} for up to 3 senders, plus sampled longer ones with 1-4+ senders, queue overrun, stalled and disappearing clients; event contents over the awkward classes. Independent chunked decoder + independent WHATWG event-stream parser; accepted events must equal dispatched events exactly once, in order; no injected fields; terminating chunk iff all senders gone. Second level through the full simulated server. Event contents include block sizes on the hex-digit boundaries of the chunk-size line and types with line breaks offered to the constructor; a quarter of the failing-sink runs use a transient Interrupted error. Further: a client that half-closes right after the request and keeps reading; a sustained stage (300-700 events, queue never empty).",
   note="Trusted: the SSE parser (oracle/sse.rs), chunked decoder. Two genuine defects are recorded as known findings (blank line pinned by the test suite; events larger than the read buffer) and matched by clause + detail.",
   technique="deterministic simulation of sender/writer interleavings with lost-wake-up detection; independent EventSource parser as oracle"),
 "C12": dict(cat="exploration", sec="3 C12", engine="server",
   text="max_conns 1-4 with 2-3x as many clients ending in every listed way, held handlers, EMFILE/abort bursts from the simulated listener, task cancellation. Per-step invariant (connections being serviced and handlers in flight <= max_conns); conservation decided by quiescence: after any history max_conns+1 fresh connections with held handlers - exactly max_conns reach their handler. EVERY slot-pool API sequence to depth 6 (quick) / 8 (thorough) plus sampled deeper ones against a counter model; a stage with a stopped global logger installed while accept failures are logged. Accept failures cover a dozen further transient errnos; half of the clients of server-ended connections stay connected and silent, some do not read the error response for a while with a 64-byte socket buffer. One more ending: an event stream the application keeps open (it holds its slot).",
   note="Trusted: simulator seams; unbounded accept backlog and blocking pool.",
   technique="deterministic simulation with accept-fault injection; per-step limit invariant + conservation probe decided by quiescence"),
 "C13": dict(cat="exploration", sec="3 C13", engine="server",
   text="Seeded simulation of the real server with a revocable permit; clients in mixed phases never close by themselves; the revocation is one more scheduler action placed at a tape-chosen step, so it lands at every await point of the accept loop and connection tasks, including 'all slots held by idle connections'; a stage in which every accept fails with EMFILE (virtual 500 ms back-off) and the server must still stop within a bounded virtual time. Safety clauses on the event history; liveness decided by quiescence, not by a timeout. A request is in flight from the first call of its handler (uploads in progress at revocation must complete); transient accept failures of a dozen errnos and a client that resets in the listen backlog are part of the runs. In a fifth of the runs one handler running at revocation never returns (the stopped signal must not wait for it); virtual time may pass at any step.",
   note="Trusted: simulator seams and the quiescence detector. 'Bounded time' = before quiescence.",
   technique="deterministic simulation: revocation injected at seeded scheduler steps; history checks + liveness by quiescence"),
 "C18": dict(cat="exploration", sec="3 C18", engine="threads",
   text="1-8 real OS threads parked and released one at a time by the seeded scheduler (the choice of who runs is the tape's); programs over the whole logging API incl. install / drop guard / stopped logger; a sequential reference model executed in baton order is compared after every operation (exactly-once routing, tag order and isolation, wrapper rules); the stdout default is observed through a pipe on fd 1. Calls carry up to 70 tags; handler errors carry failure and non-failure statuses. The logger guard is dropped normally or by an unwind that is caught further up.",
   note="Trusted: the reference model; interleavings INSIDE one logging call are not explored (one critical section per call today).",
   technique="deterministic simulation of caller-thread schedules (baton-passing real threads); sequential reference model"),
 "C19": dict(cat="exploration", sec="3 C19", engine="logwriter",
   text="The real writer thread and real files, built with the guarded hooks so the thread reads a simulated clock and acknowledges each event; lock-step histories of up to 20000 events over the configuration space with clock gaps up to days, pre-existing and look-alike files, and restarts (graceful, kill, kill with a torn tail). Invariants after every event (oldest-first deletion, per-file size/age, total size incl. earlier runs, keep-age, unrelated files) and content checks at every rotation (whole, consecutive lines ending at the newest event). File-set API vs a reference model. Events may be larger than a file and than the keep budget, singly and back to back; files of earlier runs may share one mtime; files are identified by inode (names are reused within a second). Backlogs: 2-90 events queue up behind the writer (parked after an event through a guarded hook) and are released together; a fifth of the runs use a './'-relative prefix.",
   note="Trusted: the two guarded hooks (clock, event acknowledgement), tmpfs. Disk errors are not injected (no seam; not in the property).",
   technique="deterministic simulation: simulated clock + lock-step writer thread via guarded hooks; restart/crash points; invariants over the recorded history"),
}

NA = {
 "C02": "pure function of the head bytes (Head::try_read): no schedule, clock, fault or interleaving; its one schedule-dependent clause (split independence, nothing consumed past the head) is decided under C01",
 "C14": "pure data structure (HeaderList is a Vec wrapper) driven by its caller: nothing for a simulator to own",
 "C15": "pure string functions (cookie header loop, Cookie formatting): no schedule, fault or I/O",
 "C16": "pure integer function of its argument (DateTime::new / Add): the clock only supplies the argument",
 "C17": "pure serialiser (LogEvent::write_jsonl) of its tags: no schedule, fault or I/O",
 "C20": "pure constructors and From<HttpError>: the one clause with I/O in it (5xx => connection: close) is observed inside other checks' wire oracles but C20 itself is not decided by simulation",
}
# properties not yet built are listed as not applicable *yet* with an honest reason
PENDING = {}

def main():
    checks=[]
    for pid,c in sorted(CLAIMED.items()):
        checks.append({
          "property_id": pid,
          "quick_cmd": f"./check {pid} quick",
          "thorough_cmd": f"./check {pid} thorough",
          "evidence_file": f"evidence/{pid}.json",
          "replay_cmd_template": "./check replay {path}",
          "engine": c["engine"],
          "level_claimed": {"category": c["cat"], "text": c["text"], "design_ref": "DESIGN.md section "+c["sec"]},
          "level_note": c["note"],
          "technique": c["technique"],
        })
    na=[{"property_id":k,"reason":v} for k,v in sorted({**NA, **PENDING}.items())]
    m={
      "version": 1,
      "setup_cmd": "./setup.sh",
      "hooks": {
        "guard": "servlin_verif",
        "enable": "RUSTFLAGS='--cfg servlin_verif' with CARGO_TARGET_DIR=/verif/target-hooks (done by ./check C19 only; every other check compiles /repo/src with no cfg at all, i.e. exactly the shipped code)",
        "baseline_off_cmd": "./baseline.sh",
        "source_commits": HOOK_COMMITS,
        "add_only": True,
      },
      "engines": [
        {"name":"server","path":"sim/harness/src/engine/server.rs","serves_properties":["C01","C03","C04","C08","C09","C10","C11","C12","C13"],"kind_free_text":"real HttpServerBuilder::spawn inside simulated executor + TCP + file I/O; seeded scheduler; quiescence detection"},
        {"name":"stream","path":"sim/harness/src/engine/stream.rs","serves_properties":["C01","C06","C07","C08","C11"],"kind_free_text":"scripted AsyncRead/AsyncWrite driven by the tape; futures polled by the harness"},
        {"name":"conn","path":"sim/harness/src/scen/c05.rs","serves_properties":["C05","C08"],"kind_free_text":"HttpConn over the simulated socket, calls driven one by one, client bytes fed on demand"},
        {"name":"threads","path":"sim/harness/src/scen/c18.rs","serves_properties":["C18"],"kind_free_text":"real caller threads released one at a time by the seeded scheduler"},
        {"name":"logwriter","path":"sim/harness/src/scen/c19.rs","serves_properties":["C19"],"kind_free_text":"real writer thread in lock-step with a simulated clock (guarded hooks)"},
      ],
      "checks": checks,
      "not_applicable": na,
      "notes": "All checks: cwd=/verif, honour VERIF_SEED (default fixed), rebuild /repo/src from the working tree via the shadow manifest sim/servlin-shadow, exit 0 clean / 1 VIOLATION / 2 harness error. known_findings.json is read-only at run time.",
    }
    json.dump(m,open('/verif/MANIFEST.json','w'),indent=1)
    print("claimed",len(checks),"not_applicable",len(na))
main()
