//! Core of the deterministic simulator: the choice tape, the per-run `World`
//! (virtual clock, task table, blocking jobs, simulated TCP, file-I/O fault plan,
//! event log, counters) and thread-local access to it for the substitute crates.
//!
//! A run is single-threaded. Everything the system under test can observe that is not
//! a pure function of its inputs is decided here, from the tape.

pub mod fs;
pub mod net;
pub mod tape;

use std::any::Any;
use std::cell::RefCell;
use std::collections::{BTreeMap, BTreeSet};
use std::future::Future;
use std::panic::{catch_unwind, AssertUnwindSafe};
use std::pin::Pin;
use std::sync::atomic::{AtomicBool, Ordering};
use std::sync::{Arc, Mutex};
use std::task::{Context, Poll, Wake, Waker};
use std::thread::ThreadId;

pub use tape::Tape;

pub type TaskId = u64;
pub type JobId = u64;
pub type BoxFut = Pin<Box<dyn Future<Output = ()> + Send + 'static>>;

/// Shared between the world and its wakers, so a waker can be invoked while the world
/// is mutably borrowed, and so a stale waker of an earlier run touches only dead state.
pub struct WakeQueue {
    pub set: Mutex<BTreeSet<TaskId>>,
    pub owner: ThreadId,
    pub foreign_wake: AtomicBool,
}

struct SimWaker {
    id: TaskId,
    q: Arc<WakeQueue>,
}
impl Wake for SimWaker {
    fn wake(self: Arc<Self>) {
        self.wake_by_ref();
    }
    fn wake_by_ref(self: &Arc<Self>) {
        if std::thread::current().id() != self.q.owner {
            self.q.foreign_wake.store(true, Ordering::SeqCst);
        }
        self.q.set.lock().unwrap().insert(self.id);
    }
}

#[derive(Clone, Debug)]
pub struct PanicInfo {
    pub message: String,
    pub location: String,
}

/// Liveness heartbeat for the wall-clock watchdog: milliseconds since process start of the
/// last moment the *harness* was in control (between two calls into the system under test).
static HEARTBEAT_MS: std::sync::atomic::AtomicU64 = std::sync::atomic::AtomicU64::new(0);
static START: std::sync::OnceLock<std::time::Instant> = std::sync::OnceLock::new();

pub fn heartbeat() {
    let t = START.get_or_init(std::time::Instant::now).elapsed().as_millis() as u64;
    HEARTBEAT_MS.store(t, Ordering::Relaxed);
}

/// Milliseconds since the last heartbeat.
pub fn since_heartbeat_ms() -> u64 {
    let t = START.get_or_init(std::time::Instant::now).elapsed().as_millis() as u64;
    t.saturating_sub(HEARTBEAT_MS.load(Ordering::Relaxed))
}

thread_local! {
    static LAST_PANIC: RefCell<Option<PanicInfo>> = const { RefCell::new(None) };
    static WORLD: RefCell<Option<World>> = const { RefCell::new(None) };
}

/// Installs a process-wide panic hook that records the panic of the current thread
/// instead of printing it. Call once per worker process.
pub fn install_panic_hook() {
    std::panic::set_hook(Box::new(|info| {
        let message = if let Some(s) = info.payload().downcast_ref::<&str>() {
            (*s).to_string()
        } else if let Some(s) = info.payload().downcast_ref::<String>() {
            s.clone()
        } else {
            "<non-string panic payload>".to_string()
        };
        let location = info
            .location()
            .map(|l| format!("{}:{}", l.file(), l.line()))
            .unwrap_or_default();
        LAST_PANIC.with(|c| *c.borrow_mut() = Some(PanicInfo { message, location }));
    }));
}

pub fn take_last_panic() -> Option<PanicInfo> {
    LAST_PANIC.with(|c| c.borrow_mut().take())
}

/// Semantic events emitted by the seams; scenario code appends its own through `World::log`.
#[derive(Clone, Debug, PartialEq, Eq)]
pub enum Ev {
    Spawned(TaskId),
    TaskDone(TaskId),
    TaskPanicked(TaskId, String, String),
    JobQueued(JobId),
    JobStarted(JobId),
    JobPanicked(JobId, String),
    JobFinished(JobId),
    ListenerBound(u16),
    ListenerDropped(u16),
    Connected(usize),
    Refused(u16),
    Accepted(usize),
    AcceptFault(i32),
    ServerShutdownWrite(usize),
    ServerClosed(usize),
    ClientFin(usize),
    ClientRst(usize),
    ClientClosed(usize),
    TimerFired(u64),
    FileCreated(String),
    FileOpened(String),
    Fault(&'static str),
    Note(String),
}

pub enum Job {
    /// Not yet started: running it yields the deferred "deliver the result" action.
    Queued(Box<dyn FnOnce() -> Box<dyn FnOnce() + Send> + Send>),
    /// Started, result not yet delivered (the handler is "still running").
    Running(Box<dyn FnOnce() + Send>),
}

pub struct World {
    pub tape: Tape,
    pub now_ns: u64,
    pub seq: u64,
    next_task: TaskId,
    next_job: JobId,
    pub tasks: BTreeMap<TaskId, BoxFut>,
    pub wakeq: Arc<WakeQueue>,
    pub jobs: BTreeMap<JobId, Job>,
    /// the blocking job that is executing right now (a handler can note which job runs it)
    pub current_job: Option<JobId>,
    pub timers: BTreeMap<(u64, u64), Waker>,
    pub net: net::Net,
    pub fs: fs::FsState,
    pub events: Vec<(u64, Ev)>,
    pub counters: BTreeMap<&'static str, u64>,
    pub sched_hash: u64,
    pub steps: u64,
    /// Panics of tasks located in the system under test.
    pub task_panics: Vec<(TaskId, PanicInfo)>,
    pub keep_events: bool,
}

impl World {
    pub fn new(tape: Tape) -> Self {
        World {
            tape,
            now_ns: 0,
            seq: 0,
            next_task: 1,
            next_job: 1,
            tasks: BTreeMap::new(),
            wakeq: Arc::new(WakeQueue {
                set: Mutex::new(BTreeSet::new()),
                owner: std::thread::current().id(),
                foreign_wake: AtomicBool::new(false),
            }),
            jobs: BTreeMap::new(),
            current_job: None,
            timers: BTreeMap::new(),
            net: net::Net::default(),
            fs: fs::FsState::default(),
            events: Vec::new(),
            counters: BTreeMap::new(),
            sched_hash: 0,
            steps: 0,
            task_panics: Vec::new(),
            keep_events: true,
        }
    }
    pub fn log(&mut self, ev: Ev) {
        self.seq += 1;
        if self.keep_events {
            self.events.push((self.seq, ev));
        }
    }
    pub fn note(&mut self, s: impl Into<String>) {
        if self.keep_events {
            self.log(Ev::Note(s.into()));
        }
    }
    pub fn count(&mut self, name: &'static str) {
        *self.counters.entry(name).or_insert(0) += 1;
    }
    pub fn count_n(&mut self, name: &'static str, n: u64) {
        *self.counters.entry(name).or_insert(0) += n;
    }
    pub fn hash_step(&mut self, kind: u64, who: u64) {
        self.steps += 1;
        self.sched_hash = tape::mix(tape::mix(self.sched_hash, kind), who);
    }
    pub fn runnable(&self) -> Vec<TaskId> {
        let set = self.wakeq.set.lock().unwrap();
        set.iter().copied().filter(|id| self.tasks.contains_key(id)).collect()
    }
    pub fn waker_for(&self, id: TaskId) -> Waker {
        Waker::from(Arc::new(SimWaker {
            id,
            q: self.wakeq.clone(),
        }))
    }
    pub fn foreign_wake(&self) -> bool {
        self.wakeq.foreign_wake.load(Ordering::SeqCst)
    }
}

/// Runs `f` with the current run's world. Panics when no run is active.
/// Set when simulated API is used on a thread that has no world: the system under test
/// started a real thread of its own (or a destructor ran after tear-down). The harness
/// cannot decide anything about such a run and reports a harness error, never a verdict.
static FOREIGN_USE: std::sync::atomic::AtomicBool = std::sync::atomic::AtomicBool::new(false);
pub fn take_foreign_use() -> bool {
    FOREIGN_USE.swap(false, std::sync::atomic::Ordering::SeqCst)
}

pub fn with<R>(f: impl FnOnce(&mut World) -> R) -> R {
    WORLD.with(|c| {
        let mut b = c.borrow_mut();
        if b.is_none() {
            FOREIGN_USE.store(true, std::sync::atomic::Ordering::SeqCst);
        }
        f(b.as_mut().expect("sim-core: no simulated world is active on this thread"))
    })
}

/// Like `with`, but tolerates the absence of a world (destructors at tear-down) and
/// re-entrancy (a destructor running while the world is borrowed).
pub fn try_with<R>(f: impl FnOnce(&mut World) -> R) -> Option<R> {
    WORLD.with(|c| match c.try_borrow_mut() {
        Ok(mut b) => b.as_mut().map(f),
        Err(_) => None,
    })
}

pub fn is_active() -> bool {
    WORLD.with(|c| c.try_borrow().map(|b| b.is_some()).unwrap_or(true))
}

/// Installs a fresh world for a run.
pub fn begin(tape: Tape) {
    let old = WORLD.with(|c| c.borrow_mut().replace(World::new(tape)));
    drop(old);
}

/// Ends the run: first drops tasks and jobs *outside* the world borrow (their
/// destructors call back into the seams), then removes and returns the world.
pub fn end() -> World {
    // Drop tasks and jobs one by one while the world is still installed.
    loop {
        let t = with(|w| w.tasks.pop_first());
        match t {
            Some((_, fut)) => {
                let _ = catch_unwind(AssertUnwindSafe(move || drop(fut)));
            }
            None => break,
        }
    }
    loop {
        let j = with(|w| w.jobs.pop_first());
        match j {
            Some((_, job)) => {
                let _ = catch_unwind(AssertUnwindSafe(move || drop(job)));
            }
            None => break,
        }
    }
    let timers = with(|w| std::mem::take(&mut w.timers));
    drop(timers);
    let wakers = with(|w| w.net.take_all_wakers());
    drop(wakers);
    let _ = take_last_panic();
    WORLD.with(|c| c.borrow_mut().take()).expect("world")
}

/// Spawns a task (what `safina::executor::spawn` does in simulation).
pub fn spawn(fut: BoxFut) -> TaskId {
    with(|w| {
        let id = w.next_task;
        w.next_task += 1;
        w.tasks.insert(id, fut);
        w.wakeq.set.lock().unwrap().insert(id);
        w.log(Ev::Spawned(id));
        id
    })
}

#[derive(Debug, PartialEq, Eq)]
pub enum PollOutcome {
    Pending,
    Done,
    Panicked,
    NoSuchTask,
}

/// Polls one task once, outside the world borrow.
pub fn poll_task(id: TaskId) -> PollOutcome {
    heartbeat();
    let (fut, waker) = match with(|w| {
        w.wakeq.set.lock().unwrap().remove(&id);
        let fut = w.tasks.remove(&id)?;
        Some((fut, w.waker_for(id)))
    }) {
        Some(x) => x,
        None => return PollOutcome::NoSuchTask,
    };
    let mut fut = fut;
    let mut cx = Context::from_waker(&waker);
    let _ = take_last_panic();
    let res = catch_unwind(AssertUnwindSafe(|| fut.as_mut().poll(&mut cx)));
    match res {
        Ok(Poll::Pending) => {
            with(|w| {
                w.tasks.insert(id, fut);
            });
            PollOutcome::Pending
        }
        Ok(Poll::Ready(())) => {
            // Drop the completed future outside the borrow.
            let _ = catch_unwind(AssertUnwindSafe(move || drop(fut)));
            with(|w| w.log(Ev::TaskDone(id)));
            PollOutcome::Done
        }
        Err(_payload) => {
            let info = take_last_panic().unwrap_or(PanicInfo {
                message: "<unknown>".into(),
                location: String::new(),
            });
            // The real executor drops a panicked task's future as well.
            let _ = catch_unwind(AssertUnwindSafe(move || drop(fut)));
            with(|w| {
                w.log(Ev::TaskPanicked(id, info.message.clone(), info.location.clone()));
                w.task_panics.push((id, info));
            });
            PollOutcome::Panicked
        }
    }
}

/// Drops a task's future without polling it again: the in-process analogue of a crash
/// point (only destructors run).
pub fn cancel_task(id: TaskId) -> bool {
    let fut = with(|w| {
        w.wakeq.set.lock().unwrap().remove(&id);
        w.tasks.remove(&id)
    });
    match fut {
        Some(f) => {
            let _ = catch_unwind(AssertUnwindSafe(move || drop(f)));
            with(|w| w.note(format!("task {id} cancelled")));
            true
        }
        None => false,
    }
}

/// Queues a blocking job. `run` executes the job body and returns the deferred delivery
/// of its result.
pub fn queue_job(run: Box<dyn FnOnce() -> Box<dyn FnOnce() + Send> + Send>) -> JobId {
    with(|w| {
        let id = w.next_job;
        w.next_job += 1;
        w.jobs.insert(id, Job::Queued(run));
        w.log(Ev::JobQueued(id));
        id
    })
}

pub fn queued_jobs() -> Vec<JobId> {
    with(|w| {
        w.jobs
            .iter()
            .filter(|(_, j)| matches!(j, Job::Queued(_)))
            .map(|(id, _)| *id)
            .collect()
    })
}

pub fn running_jobs() -> Vec<JobId> {
    with(|w| {
        w.jobs
            .iter()
            .filter(|(_, j)| matches!(j, Job::Running(_)))
            .map(|(id, _)| *id)
            .collect()
    })
}

/// Runs the body of a queued job on the simulation thread (outside the world borrow).
pub fn start_job(id: JobId) {
    heartbeat();
    let job = with(|w| w.jobs.remove(&id));
    if let Some(Job::Queued(run)) = job {
        with(|w| {
            w.log(Ev::JobStarted(id));
            w.current_job = Some(id);
        });
        let deliver = run();
        with(|w| w.current_job = None);
        with(|w| {
            w.jobs.insert(id, Job::Running(deliver));
        });
    } else if let Some(other) = job {
        with(|w| {
            w.jobs.insert(id, other);
        });
    }
}

/// Delivers the result of a started job to whoever awaits it.
pub fn finish_job(id: JobId) {
    let job = with(|w| w.jobs.remove(&id));
    if let Some(Job::Running(deliver)) = job {
        deliver();
        with(|w| w.log(Ev::JobFinished(id)));
    } else if let Some(other) = job {
        with(|w| {
            w.jobs.insert(id, other);
        });
    }
}

/// Registers a timer; returns its key.
pub fn add_timer(deadline_ns: u64, waker: Waker) -> (u64, u64) {
    with(|w| {
        w.seq += 1;
        let key = (deadline_ns, w.seq);
        w.timers.insert(key, waker);
        key
    })
}

/// Fires the earliest timer, advancing the virtual clock to it. Returns false if none.
pub fn fire_next_timer() -> bool {
    let waker = with(|w| {
        let (key, waker) = w.timers.pop_first()?;
        if key.0 > w.now_ns {
            w.now_ns = key.0;
        }
        w.log(Ev::TimerFired(key.0));
        Some(waker)
    });
    match waker {
        Some(wk) => {
            wk.wake();
            true
        }
        None => false,
    }
}

pub fn now_ns() -> u64 {
    with(|w| w.now_ns)
}

/// Payload type used by scripted handlers that panic on purpose.
pub struct DeliberatePanic;

pub fn deliberate_panic() -> ! {
    std::panic::resume_unwind(Box::new(DeliberatePanic) as Box<dyn Any + Send>)
}
