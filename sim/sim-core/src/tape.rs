//! The choice tape: the single source of nondeterminism of a simulated run.
//!
//! Search mode draws from a xoshiro256** generator and records every draw; replay
//! mode reads the recorded values back (reduced modulo the bound, 0 when the tape is
//! exhausted), which is what makes shrunk tapes meaningful.

#[derive(Clone)]
pub struct Rng {
    s: [u64; 4],
}

pub fn splitmix64(x: &mut u64) -> u64 {
    *x = x.wrapping_add(0x9E37_79B9_7F4A_7C15);
    let mut z = *x;
    z = (z ^ (z >> 30)).wrapping_mul(0xBF58_476D_1CE4_E5B9);
    z = (z ^ (z >> 27)).wrapping_mul(0x94D0_49BB_1331_11EB);
    z ^ (z >> 31)
}

impl Rng {
    pub fn new(seed: u64) -> Self {
        let mut x = seed;
        let s = [
            splitmix64(&mut x),
            splitmix64(&mut x),
            splitmix64(&mut x),
            splitmix64(&mut x),
        ];
        Rng { s }
    }
    pub fn next_u64(&mut self) -> u64 {
        let result = self.s[1].wrapping_mul(5).rotate_left(7).wrapping_mul(9);
        let t = self.s[1] << 17;
        self.s[2] ^= self.s[0];
        self.s[3] ^= self.s[1];
        self.s[1] ^= self.s[2];
        self.s[0] ^= self.s[3];
        self.s[2] ^= t;
        self.s[3] = self.s[3].rotate_left(45);
        result
    }
}

/// FNV-1a, used for schedule hashes and for deriving per-run seeds.
pub fn fnv1a(data: &[u8]) -> u64 {
    let mut h: u64 = 0xcbf2_9ce4_8422_2325;
    for b in data {
        h ^= u64::from(*b);
        h = h.wrapping_mul(0x0000_0100_0000_01b3);
    }
    h
}

pub fn mix(h: u64, v: u64) -> u64 {
    let mut x = h ^ v.wrapping_mul(0x9E37_79B9_7F4A_7C15);
    x = (x ^ (x >> 32)).wrapping_mul(0xD6E8_FEB8_6659_FD93);
    x ^ (x >> 29)
}

enum Mode {
    Search(Rng),
    Replay,
}

pub struct Tape {
    mode: Mode,
    /// In search mode: the values drawn so far. In replay mode: the values to replay.
    pub vals: Vec<u32>,
    pos: usize,
    /// Number of draws made (replay mode may exceed vals.len()).
    pub draws: usize,
}

impl Tape {
    pub fn search(seed: u64) -> Self {
        Tape {
            mode: Mode::Search(Rng::new(seed)),
            vals: Vec::new(),
            pos: 0,
            draws: 0,
        }
    }
    pub fn replay(vals: Vec<u32>) -> Self {
        Tape {
            mode: Mode::Replay,
            vals,
            pos: 0,
            draws: 0,
        }
    }
    /// A value in `0..n` (`n >= 1`). `n == 1` consumes nothing.
    pub fn below(&mut self, n: u32) -> u32 {
        if n <= 1 {
            return 0;
        }
        self.draws += 1;
        match &mut self.mode {
            Mode::Search(rng) => {
                let v = (rng.next_u64() % u64::from(n)) as u32;
                self.vals.push(v);
                v
            }
            Mode::Replay => {
                let v = if self.pos < self.vals.len() {
                    self.vals[self.pos] % n
                } else {
                    0
                };
                self.pos += 1;
                v
            }
        }
    }
    /// The values actually consumed by the run (for replay files).
    pub fn consumed(&self) -> Vec<u32> {
        match self.mode {
            Mode::Search(_) => self.vals.clone(),
            Mode::Replay => {
                let mut v: Vec<u32> = self.vals.iter().take(self.pos).copied().collect();
                while v.last() == Some(&0) {
                    v.pop();
                }
                v
            }
        }
    }
    pub fn range(&mut self, lo: u32, hi_incl: u32) -> u32 {
        debug_assert!(lo <= hi_incl);
        lo + self.below(hi_incl - lo + 1)
    }
    /// True with probability num/den. 0 (the shrink target) means false.
    pub fn ratio(&mut self, num: u32, den: u32) -> bool {
        if num == 0 {
            return false;
        }
        if num >= den {
            return true;
        }
        // value 0 must map to `false` so that shrinking removes the unusual event.
        self.below(den) >= den - num
    }
    pub fn pick<'a, T>(&mut self, items: &'a [T]) -> &'a T {
        &items[self.below(items.len() as u32) as usize]
    }
    /// Index chosen with the given weights (weights need not be normalised; zero weights are never chosen).
    pub fn weighted(&mut self, weights: &[u32]) -> usize {
        let total: u32 = weights.iter().sum();
        if total == 0 {
            return 0;
        }
        let mut v = self.below(total);
        for (i, w) in weights.iter().enumerate() {
            if v < *w {
                return i;
            }
            v -= *w;
        }
        weights.len() - 1
    }
    /// A 32-bit seed for deterministic bulk content (one draw instead of one per byte).
    pub fn seed32(&mut self) -> u32 {
        self.below(u32::MAX)
    }
}

/// Deterministic bulk content derived from one drawn seed; position-dependent so that
/// truncation, duplication and reordering of a body are all visible to an oracle.
pub fn content_byte(seed: u32, i: u64) -> u8 {
    let mut x = u64::from(seed).wrapping_mul(0x9E37_79B9_7F4A_7C15) ^ i.wrapping_mul(0xD6E8_FEB8_6659_FD93);
    x ^= x >> 29;
    x = x.wrapping_mul(0xBF58_476D_1CE4_E5B9);
    (x >> 32) as u8
}

pub fn content(seed: u32, len: usize) -> Vec<u8> {
    (0..len as u64).map(|i| content_byte(seed, i)).collect()
}
