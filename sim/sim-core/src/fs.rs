//! Fault plan and byte accounting for the simulated `async_fs::File` (which wraps real
//! `std::fs` files in a per-run private directory).

use std::collections::BTreeMap;
use std::io::ErrorKind;

#[derive(Default)]
pub struct FsState {
    /// `File::create` fails with this error kind (once per entry).
    pub create_faults: Vec<ErrorKind>,
    /// `File::open` fails with this error kind (once per entry).
    pub open_faults: Vec<ErrorKind>,
    /// The n-th created file (0-based creation index) fails writes once this many bytes were written to it.
    pub write_fail_at: BTreeMap<usize, (u64, ErrorKind)>,
    /// The n-th opened file fails reads once this many bytes were read from it.
    pub read_fail_at: BTreeMap<usize, (u64, ErrorKind)>,
    /// Another process truncates the file while it is being read: once this many bytes of
    /// the idx-th opened file have been read, the real file is cut to the given length.
    pub shrink_after: BTreeMap<usize, (u64, u64)>,
    /// Closing the n-th created file fails.
    pub close_fail: BTreeMap<usize, ErrorKind>,
    pub short_io: bool,
    pub spurious_pending_64: u32,

    // accounting
    pub created: Vec<String>,
    pub opened: Vec<String>,
    pub bytes_written: Vec<u64>,
    pub bytes_read: Vec<u64>,
    pub open_handles: i64,
    pub max_single_file_written: u64,
}
