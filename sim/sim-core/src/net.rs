//! Simulated in-process TCP: listeners, connections as two bounded byte pipes with
//! FIN/RST markers, short reads/writes and spurious `Pending` decided by the tape,
//! server-side write faults and accept faults.
//!
//! Bytes are never reordered, duplicated or lost within a connection (it is TCP).
//! There is no separate "in flight" stage: a byte written by one side is readable by
//! the other as soon as the scheduler lets the other side take a step, which already
//! makes every arrival pattern reachable.

use crate::{Ev, World};
use std::collections::{BTreeMap, VecDeque};
use std::io::ErrorKind;
use std::task::{Poll, Waker};

pub struct Pipe {
    pub buf: VecDeque<u8>,
    pub cap: usize,
    /// Writer has sent FIN (half-close or close); reader sees EOF after draining.
    pub fin: bool,
    pub reader_waker: Option<Waker>,
    pub writer_waker: Option<Waker>,
    pub total_written: u64,
    pub total_read: u64,
}
impl Pipe {
    fn new(cap: usize) -> Self {
        Pipe {
            buf: VecDeque::new(),
            cap,
            fin: false,
            reader_waker: None,
            writer_waker: None,
            total_written: 0,
            total_read: 0,
        }
    }
    pub fn free(&self) -> usize {
        self.cap.saturating_sub(self.buf.len())
    }
}

pub struct Conn {
    pub id: usize,
    pub port: u16,
    pub c2s: Pipe,
    pub s2c: Pipe,
    /// Connection reset: both directions are dead, buffered data is discarded.
    pub rst: bool,
    /// ECONNRESET has been reported to a server-side read: the kernel reports a pending
    /// socket error once, further reads see end of stream
    pub rst_reported: bool,
    /// The server's stream object has been dropped.
    pub server_closed: bool,
    /// The client has closed its socket (no longer reads or writes).
    pub client_closed: bool,
    pub accepted: bool,
    /// Server-side write fails once exactly this many bytes have been accepted.
    pub fail_write_at: Option<(u64, ErrorKind)>,
    /// Server-side read fails once exactly this many bytes have been read.
    pub fail_read_at: Option<(u64, ErrorKind)>,
    /// transient faults are reported once (EINTR-like) and the stream then goes on
    pub read_fault_transient: bool,
    pub write_fault_transient: bool,
    pub write_fault_fired: bool,
    /// Everything the server ever wrote, for transcript oracles that want it even when the client does not read.
    pub s2c_log: Vec<u8>,
    pub keep_s2c_log: bool,
}

pub struct Listener {
    pub port: u16,
    pub queue: VecDeque<usize>,
    /// every task parked in accept() on this listener (a change may run several accept loops on one listener)
    pub waker: Vec<Waker>,
}

#[derive(Clone, Copy, Debug, PartialEq, Eq)]
pub enum AcceptFault {
    /// EMFILE: the connection stays in the backlog.
    Emfile,
    /// Any other error (e.g. ECONNABORTED): the connection is gone.
    Aborted,
    /// Another errno accept(2) can fail with transiently. Resource shortages (ENFILE 23,
    /// ENOBUFS 105, ENOMEM 12) leave the connection in the backlog; errors pending on the
    /// new connection (EPROTO 71, ENETDOWN 100, EHOSTUNREACH 113, EOPNOTSUPP 95, EPERM 1,
    /// ENETUNREACH 101, EHOSTDOWN 112, ENOPROTOOPT 92, ENONET 64) consume it.
    Os(i32),
}
pub const TRANSIENT_ACCEPT_ERRNOS: [i32; 12] = [23, 105, 12, 71, 100, 113, 95, 1, 101, 112, 92, 64];

pub struct Knobs {
    pub sock_cap: usize,
    /// Max bytes per server-side read/write call (0 = unlimited).
    pub max_io: usize,
    /// When true, the number of bytes a server-side call transfers is drawn from the tape.
    pub short_io: bool,
    /// Spurious `Pending` with probability num/64 on server-side reads and writes.
    pub spurious_pending_64: u32,
    /// Every connection made from now on gets one EINTR-like fault on its server side:
    /// the read that would start at this many bytes reports `Interrupted` once.
    pub eintr_read_at: Option<u64>,
}
impl Default for Knobs {
    fn default() -> Self {
        Knobs {
            sock_cap: 256 * 1024,
            max_io: 0,
            short_io: false,
            spurious_pending_64: 0,
            eintr_read_at: None,
        }
    }
}

#[derive(Default)]
pub struct Net {
    pub listeners: BTreeMap<u16, Listener>,
    pub conns: Vec<Conn>,
    pub next_port: u16,
    pub knobs: Knobs,
    pub accept_faults: VecDeque<AcceptFault>,
    /// Every accept with a pending connection fails with EMFILE (a process that stays out
    /// of file descriptors).
    pub accept_always_emfile: bool,
    pub bind_fault: bool,
}

fn io_err(kind: ErrorKind) -> std::io::Error {
    std::io::Error::new(kind, "simulated")
}

impl Net {
    pub fn take_all_wakers(&mut self) -> Vec<Waker> {
        let mut v = Vec::new();
        for l in self.listeners.values_mut() {
            v.extend(l.waker.drain(..));
        }
        for c in &mut self.conns {
            v.extend(c.c2s.reader_waker.take());
            v.extend(c.c2s.writer_waker.take());
            v.extend(c.s2c.reader_waker.take());
            v.extend(c.s2c.writer_waker.take());
        }
        v
    }
}

impl World {
    // ---------------------------------------------------------------- listener side
    pub fn net_bind(&mut self, requested_port: u16) -> std::io::Result<u16> {
        if self.net.bind_fault {
            return Err(io_err(ErrorKind::AddrInUse));
        }
        let port = if requested_port == 0 {
            if self.net.next_port == 0 {
                self.net.next_port = 40000;
            }
            self.net.next_port += 1;
            self.net.next_port
        } else {
            requested_port
        };
        if self.net.listeners.contains_key(&port) {
            return Err(io_err(ErrorKind::AddrInUse));
        }
        self.net.listeners.insert(
            port,
            Listener {
                port,
                queue: VecDeque::new(),
                waker: Vec::new(),
            },
        );
        self.log(Ev::ListenerBound(port));
        Ok(port)
    }

    pub fn net_unbind(&mut self, port: u16) {
        if let Some(l) = self.net.listeners.remove(&port) {
            // Connections still in the backlog are reset, as the kernel does.
            for id in l.queue {
                let c = &mut self.net.conns[id];
                c.rst = true;
                c.server_closed = true;
            }
            self.log(Ev::ListenerDropped(port));
        }
    }

    pub fn net_poll_accept(&mut self, port: u16, waker: &Waker) -> Poll<std::io::Result<usize>> {
        let has_pending = self
            .net
            .listeners
            .get(&port)
            .map(|l| !l.queue.is_empty())
            .unwrap_or(false);
        if has_pending {
            if self.net.accept_always_emfile {
                self.count("fault.accept_emfile");
                self.log(Ev::AcceptFault(24));
                return Poll::Ready(Err(std::io::Error::from_raw_os_error(24)));
            }
            if let Some(f) = self.net.accept_faults.pop_front() {
                match f {
                    AcceptFault::Emfile => {
                        self.count("fault.accept_emfile");
                        self.log(Ev::AcceptFault(24));
                        return Poll::Ready(Err(std::io::Error::from_raw_os_error(24)));
                    }
                    AcceptFault::Os(errno) => {
                        if !matches!(errno, 23 | 105 | 12) {
                            let id = self.net.listeners.get_mut(&port).unwrap().queue.pop_front().unwrap();
                            let c = &mut self.net.conns[id];
                            c.rst = true;
                            c.server_closed = true;
                        }
                        self.count("fault.accept_other_errno");
                        self.log(Ev::AcceptFault(errno));
                        return Poll::Ready(Err(std::io::Error::from_raw_os_error(errno)));
                    }
                    AcceptFault::Aborted => {
                        let id = self.net.listeners.get_mut(&port).unwrap().queue.pop_front().unwrap();
                        let c = &mut self.net.conns[id];
                        c.rst = true;
                        c.server_closed = true;
                        self.count("fault.accept_aborted");
                        self.log(Ev::AcceptFault(103));
                        return Poll::Ready(Err(io_err(ErrorKind::ConnectionAborted)));
                    }
                }
            }
            let id = self.net.listeners.get_mut(&port).unwrap().queue.pop_front().unwrap();
            self.net.conns[id].accepted = true;
            self.log(Ev::Accepted(id));
            return Poll::Ready(Ok(id));
        }
        match self.net.listeners.get_mut(&port) {
            Some(l) => {
                if !l.waker.iter().any(|w| w.will_wake(waker)) {
                    l.waker.push(waker.clone());
                }
                Poll::Pending
            }
            None => Poll::Ready(Err(io_err(ErrorKind::NotConnected))),
        }
    }

    // ---------------------------------------------------------------- client side (harness)
    pub fn client_connect(&mut self, port: u16) -> Option<usize> {
        if !self.net.listeners.contains_key(&port) {
            self.log(Ev::Refused(port));
            return None;
        }
        let id = self.net.conns.len();
        let cap = self.net.knobs.sock_cap;
        self.net.conns.push(Conn {
            id,
            port,
            c2s: Pipe::new(cap),
            s2c: Pipe::new(cap),
            rst: false,
            rst_reported: false,
            server_closed: false,
            client_closed: false,
            accepted: false,
            fail_write_at: None,
            fail_read_at: self.net.knobs.eintr_read_at.map(|k| (k, ErrorKind::Interrupted)),
            read_fault_transient: self.net.knobs.eintr_read_at.is_some(),
            
            write_fault_transient: false,
            write_fault_fired: false,
            s2c_log: Vec::new(),
            keep_s2c_log: false,
        });
        let l = self.net.listeners.get_mut(&port).unwrap();
        l.queue.push_back(id);
        let wk: Vec<Waker> = l.waker.drain(..).collect();
        self.log(Ev::Connected(id));
        for w in wk {
            w.wake();
        }
        Some(id)
    }

    /// Creates a connection that is already "accepted": used by engines that drive
    /// `HttpConn` directly, without a listener.
    pub fn direct_conn(&mut self) -> usize {
        let id = self.net.conns.len();
        let cap = self.net.knobs.sock_cap;
        self.net.conns.push(Conn {
            id,
            port: 0,
            c2s: Pipe::new(cap),
            s2c: Pipe::new(cap),
            rst: false,
            rst_reported: false,
            server_closed: false,
            client_closed: false,
            accepted: true,
            fail_write_at: None,
            fail_read_at: None,
            read_fault_transient: false,
            write_fault_transient: false,
            write_fault_fired: false,
            s2c_log: Vec::new(),
            keep_s2c_log: false,
        });
        id
    }

    /// Client writes; returns the number of bytes accepted (0 when the pipe is full or dead).
    pub fn client_write(&mut self, id: usize, data: &[u8]) -> usize {
        let c = &mut self.net.conns[id];
        if c.rst || c.client_closed || c.c2s.fin {
            return 0;
        }
        if c.server_closed {
            // Peer is gone: the kernel would answer with RST; data is discarded.
            return data.len();
        }
        let n = data.len().min(c.c2s.free());
        c.c2s.buf.extend(&data[..n]);
        c.c2s.total_written += n as u64;
        let wk = if n > 0 { c.c2s.reader_waker.take() } else { None };
        if let Some(w) = wk {
            w.wake();
        }
        n
    }

    /// Client reads up to `max` bytes of what the server has sent.
    pub fn client_read(&mut self, id: usize, max: usize) -> Vec<u8> {
        let c = &mut self.net.conns[id];
        if c.rst || c.client_closed {
            return Vec::new();
        }
        let n = max.min(c.s2c.buf.len());
        let out: Vec<u8> = c.s2c.buf.drain(..n).collect();
        c.s2c.total_read += n as u64;
        let wk = if n > 0 { c.s2c.writer_waker.take() } else { None };
        if let Some(w) = wk {
            w.wake();
        }
        out
    }

    pub fn client_readable(&self, id: usize) -> usize {
        let c = &self.net.conns[id];
        if c.rst || c.client_closed {
            0
        } else {
            c.s2c.buf.len()
        }
    }

    /// The client has received everything the server will ever send.
    pub fn client_at_eof(&self, id: usize) -> bool {
        let c = &self.net.conns[id];
        c.rst || (c.s2c.fin && c.s2c.buf.is_empty())
    }

    pub fn client_saw_reset(&self, id: usize) -> bool {
        self.net.conns[id].rst
    }

    pub fn client_shutdown_write(&mut self, id: usize) {
        let c = &mut self.net.conns[id];
        if c.c2s.fin || c.rst {
            return;
        }
        c.c2s.fin = true;
        let wk = c.c2s.reader_waker.take();
        self.log(Ev::ClientFin(id));
        if let Some(w) = wk {
            w.wake();
        }
    }

    pub fn client_rst(&mut self, id: usize) {
        let c = &mut self.net.conns[id];
        if c.rst {
            return;
        }
        c.rst = true;
        c.client_closed = true;
        c.c2s.buf.clear();
        c.s2c.buf.clear();
        let wks = [c.c2s.reader_waker.take(), c.s2c.writer_waker.take()];
        self.log(Ev::ClientRst(id));
        for w in wks.into_iter().flatten() {
            w.wake();
        }
    }

    /// Orderly close by the client: FIN on its write side; later server writes fail.
    pub fn client_close(&mut self, id: usize) {
        let c = &mut self.net.conns[id];
        if c.client_closed {
            return;
        }
        c.client_closed = true;
        c.c2s.fin = true;
        let wks = [c.c2s.reader_waker.take(), c.s2c.writer_waker.take()];
        self.log(Ev::ClientClosed(id));
        for w in wks.into_iter().flatten() {
            w.wake();
        }
    }

    // ---------------------------------------------------------------- server side (sim-async-net)
    fn spurious(&mut self) -> bool {
        let p = self.net.knobs.spurious_pending_64;
        p > 0 && self.tape.ratio(p, 64)
    }

    fn io_len(&mut self, limit: usize) -> usize {
        let mut lim = limit;
        if self.net.knobs.max_io > 0 {
            lim = lim.min(self.net.knobs.max_io);
        }
        if self.net.knobs.short_io && lim > 1 {
            // Bias: half of the time take everything, otherwise a drawn shorter length.
            if self.tape.ratio(1, 2) {
                let cap = lim.min(u32::MAX as usize) as u32;
                return 1 + self.tape.below(cap) as usize;
            }
        }
        lim
    }

    pub fn server_poll_read(&mut self, id: usize, out: &mut [u8], waker: &Waker) -> Poll<std::io::Result<usize>> {
        if out.is_empty() {
            return Poll::Ready(Ok(0));
        }
        if self.spurious() {
            self.count("net.spurious_pending_read");
            waker.wake_by_ref();
            return Poll::Pending;
        }
        {
            let c = &mut self.net.conns[id];
            if c.rst {
                if c.rst_reported {
                    return Poll::Ready(Ok(0));
                }
                c.rst_reported = true;
                return Poll::Ready(Err(io_err(ErrorKind::ConnectionReset)));
            }
            if let Some((at, kind)) = c.fail_read_at {
                if c.c2s.total_read >= at {
                    if c.read_fault_transient {
                        c.fail_read_at = None;
                    }
                    self.count("fault.server_read_error");
                    return Poll::Ready(Err(io_err(kind)));
                }
            }
        }
        let avail = self.net.conns[id].c2s.buf.len();
        if avail > 0 {
            let mut lim = out.len().min(avail);
            if let Some((at, _)) = self.net.conns[id].fail_read_at {
                let left = (at - self.net.conns[id].c2s.total_read) as usize;
                lim = lim.min(left.max(1));
            }
            let n = self.io_len(lim);
            let c = &mut self.net.conns[id];
            for (i, b) in c.c2s.buf.drain(..n).enumerate() {
                out[i] = b;
            }
            c.c2s.total_read += n as u64;
            let wk = c.c2s.writer_waker.take();
            if let Some(w) = wk {
                w.wake();
            }
            return Poll::Ready(Ok(n));
        }
        let c = &mut self.net.conns[id];
        if c.c2s.fin {
            return Poll::Ready(Ok(0));
        }
        c.c2s.reader_waker = Some(waker.clone());
        Poll::Pending
    }

    pub fn server_poll_write(&mut self, id: usize, data: &[u8], waker: &Waker) -> Poll<std::io::Result<usize>> {
        if data.is_empty() {
            return Poll::Ready(Ok(0));
        }
        if self.spurious() {
            self.count("net.spurious_pending_write");
            waker.wake_by_ref();
            return Poll::Pending;
        }
        {
            let c = &mut self.net.conns[id];
            if c.rst {
                return Poll::Ready(Err(io_err(ErrorKind::ConnectionReset)));
            }
            if c.s2c.fin {
                return Poll::Ready(Err(io_err(ErrorKind::BrokenPipe)));
            }
            if c.client_closed {
                return Poll::Ready(Err(io_err(ErrorKind::BrokenPipe)));
            }
            if let Some((at, kind)) = c.fail_write_at {
                if c.s2c.total_written >= at {
                    c.write_fault_fired = true;
                    if c.write_fault_transient {
                        c.fail_write_at = None;
                    }
                    self.count("fault.server_write_error");
                    return Poll::Ready(Err(io_err(kind)));
                }
            }
        }
        let free = self.net.conns[id].s2c.free();
        if free == 0 {
            self.net.conns[id].s2c.writer_waker = Some(waker.clone());
            self.count("net.backpressure");
            return Poll::Pending;
        }
        let mut lim = data.len().min(free);
        if let Some((at, _)) = self.net.conns[id].fail_write_at {
            let left = (at - self.net.conns[id].s2c.total_written) as usize;
            lim = lim.min(left.max(1));
        }
        let n = self.io_len(lim);
        let c = &mut self.net.conns[id];
        c.s2c.buf.extend(&data[..n]);
        c.s2c.total_written += n as u64;
        if c.keep_s2c_log {
            c.s2c_log.extend_from_slice(&data[..n]);
        }
        let wk = c.s2c.reader_waker.take();
        if let Some(w) = wk {
            w.wake();
        }
        Poll::Ready(Ok(n))
    }

    pub fn server_shutdown_write(&mut self, id: usize) {
        let c = &mut self.net.conns[id];
        if !c.s2c.fin {
            c.s2c.fin = true;
            self.log(Ev::ServerShutdownWrite(id));
        }
    }

    pub fn server_drop(&mut self, id: usize) {
        let c = &mut self.net.conns[id];
        if c.server_closed {
            return;
        }
        c.server_closed = true;
        c.s2c.fin = true;
        c.c2s.reader_waker = None;
        c.s2c.writer_waker = None;
        self.log(Ev::ServerClosed(id));
    }
}
