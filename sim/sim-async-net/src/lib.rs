//! Substitute for `async-net`: the surface `/repo/src` uses, backed by the simulated
//! TCP of `sim-core` (DESIGN.md 2.5).
#![forbid(unsafe_code)]

use futures_io::{AsyncRead, AsyncWrite};
use std::future::Future;
use std::io;
use std::net::{IpAddr, Ipv4Addr, Shutdown, SocketAddr};
use std::pin::Pin;
use std::task::{Context, Poll};

fn client_addr(conn: usize) -> SocketAddr {
    SocketAddr::new(IpAddr::V4(Ipv4Addr::new(10, 0, 0, 1)), 10000 + (conn % 50000) as u16)
}

#[derive(Debug)]
pub struct TcpListener {
    port: u16,
    addr: SocketAddr,
}
impl TcpListener {
    pub async fn bind(addr: SocketAddr) -> io::Result<TcpListener> {
        let port = sim_core::with(|w| w.net_bind(addr.port()))?;
        Ok(TcpListener {
            port,
            addr: SocketAddr::new(addr.ip(), port),
        })
    }
    pub fn local_addr(&self) -> io::Result<SocketAddr> {
        Ok(self.addr)
    }
    pub fn accept(&self) -> Accept<'_> {
        Accept { listener: self }
    }
    /// The stream of incoming connections (same as calling `accept` in a loop).
    pub fn incoming(&self) -> Incoming<'_> {
        Incoming { listener: self }
    }
}

pub struct Incoming<'a> {
    listener: &'a TcpListener,
}
impl futures_core::Stream for Incoming<'_> {
    type Item = io::Result<TcpStream>;
    fn poll_next(self: Pin<&mut Self>, cx: &mut Context<'_>) -> Poll<Option<Self::Item>> {
        let port = self.listener.port;
        let local = self.listener.addr;
        match sim_core::with(|w| w.net_poll_accept(port, cx.waker())) {
            Poll::Pending => Poll::Pending,
            Poll::Ready(Err(e)) => Poll::Ready(Some(Err(e))),
            Poll::Ready(Ok(conn)) => Poll::Ready(Some(Ok(TcpStream { conn, local }))),
        }
    }
}
impl Drop for TcpListener {
    fn drop(&mut self) {
        let port = self.port;
        let _ = sim_core::try_with(|w| w.net_unbind(port));
    }
}

pub struct Accept<'a> {
    listener: &'a TcpListener,
}
impl Future for Accept<'_> {
    type Output = io::Result<(TcpStream, SocketAddr)>;
    fn poll(self: Pin<&mut Self>, cx: &mut Context<'_>) -> Poll<Self::Output> {
        let port = self.listener.port;
        let local = self.listener.addr;
        match sim_core::with(|w| w.net_poll_accept(port, cx.waker())) {
            Poll::Pending => Poll::Pending,
            Poll::Ready(Err(e)) => Poll::Ready(Err(e)),
            Poll::Ready(Ok(conn)) => Poll::Ready(Ok((TcpStream { conn, local }, client_addr(conn)))),
        }
    }
}

#[derive(Debug)]
pub struct TcpStream {
    conn: usize,
    local: SocketAddr,
}
impl TcpStream {
    /// Harness-only: wraps the server end of a connection made with `World::direct_conn`.
    pub fn sim_from_conn(conn: usize) -> TcpStream {
        TcpStream {
            conn,
            local: SocketAddr::new(IpAddr::V4(Ipv4Addr::LOCALHOST), 1),
        }
    }
    pub fn sim_conn_id(&self) -> usize {
        self.conn
    }
    pub fn shutdown(&self, how: Shutdown) -> io::Result<()> {
        let conn = self.conn;
        sim_core::with(|w| match how {
            Shutdown::Write | Shutdown::Both => w.server_shutdown_write(conn),
            Shutdown::Read => {}
        });
        Ok(())
    }
    pub fn local_addr(&self) -> io::Result<SocketAddr> {
        Ok(self.local)
    }
    // Socket options: accepted and ignored (they have no meaning for the simulated TCP).
    pub fn nodelay(&self) -> io::Result<bool> {
        Ok(true)
    }
    pub fn set_nodelay(&self, _nodelay: bool) -> io::Result<()> {
        Ok(())
    }
    pub fn ttl(&self) -> io::Result<u32> {
        Ok(64)
    }
    pub fn set_ttl(&self, _ttl: u32) -> io::Result<()> {
        Ok(())
    }
    pub fn peer_addr(&self) -> io::Result<SocketAddr> {
        // getpeername(2) on a connection the peer has reset fails with ENOTCONN - also for a
        // connection that was reset while it waited in the listen backlog and was accepted
        // afterwards (accept(2) itself still reports the address it recorded)
        let conn = self.conn;
        if sim_core::with(|w| w.net.conns[conn].rst) {
            return Err(io::Error::from_raw_os_error(107));
        }
        Ok(client_addr(self.conn))
    }
}
impl Drop for TcpStream {
    fn drop(&mut self) {
        let conn = self.conn;
        let _ = sim_core::try_with(|w| w.server_drop(conn));
    }
}
impl AsyncRead for TcpStream {
    fn poll_read(self: Pin<&mut Self>, cx: &mut Context<'_>, buf: &mut [u8]) -> Poll<io::Result<usize>> {
        let conn = self.conn;
        sim_core::with(|w| w.server_poll_read(conn, buf, cx.waker()))
    }
}
impl AsyncWrite for TcpStream {
    fn poll_write(self: Pin<&mut Self>, cx: &mut Context<'_>, buf: &[u8]) -> Poll<io::Result<usize>> {
        let conn = self.conn;
        sim_core::with(|w| w.server_poll_write(conn, buf, cx.waker()))
    }
    /// writev(2) semantics: the slices are taken in order as one byte string, of which the
    /// socket accepts a prefix - possibly ending in the middle of a later slice.
    fn poll_write_vectored(self: Pin<&mut Self>, cx: &mut Context<'_>, bufs: &[io::IoSlice<'_>]) -> Poll<io::Result<usize>> {
        let conn = self.conn;
        let joined: Vec<u8> = bufs.iter().flat_map(|b| b.iter().copied()).collect();
        sim_core::with(|w| {
            w.count("net.vectored_write");
            w.server_poll_write(conn, &joined, cx.waker())
        })
    }
    fn poll_flush(self: Pin<&mut Self>, _cx: &mut Context<'_>) -> Poll<io::Result<()>> {
        Poll::Ready(Ok(()))
    }
    fn poll_close(self: Pin<&mut Self>, _cx: &mut Context<'_>) -> Poll<io::Result<()>> {
        let conn = self.conn;
        sim_core::with(|w| w.server_shutdown_write(conn));
        Poll::Ready(Ok(()))
    }
}
impl AsyncRead for &TcpStream {
    fn poll_read(self: Pin<&mut Self>, cx: &mut Context<'_>, buf: &mut [u8]) -> Poll<io::Result<usize>> {
        let conn = self.conn;
        sim_core::with(|w| w.server_poll_read(conn, buf, cx.waker()))
    }
}
impl AsyncWrite for &TcpStream {
    fn poll_write(self: Pin<&mut Self>, cx: &mut Context<'_>, buf: &[u8]) -> Poll<io::Result<usize>> {
        let conn = self.conn;
        sim_core::with(|w| w.server_poll_write(conn, buf, cx.waker()))
    }
    fn poll_flush(self: Pin<&mut Self>, _cx: &mut Context<'_>) -> Poll<io::Result<()>> {
        Poll::Ready(Ok(()))
    }
    fn poll_close(self: Pin<&mut Self>, _cx: &mut Context<'_>) -> Poll<io::Result<()>> {
        let conn = self.conn;
        sim_core::with(|w| w.server_shutdown_write(conn));
        Poll::Ready(Ok(()))
    }
}
