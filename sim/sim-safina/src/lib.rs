//! Substitute for the `safina` crate inside the simulator (DESIGN.md 2.1, 2.3, 2.4).
//!
//! * `sync` is the REAL `safina::sync` (executor-agnostic channels), re-exported.
//! * `executor::{spawn, schedule_blocking}` hand tasks and blocking jobs to the simulator.
//! * `timer::sleep_for` is a discrete-event timer on the virtual clock.
#![forbid(unsafe_code)]

pub use real_safina::sync;

pub mod executor {
    use real_safina::sync::Receiver;
    use std::future::Future;
    use std::panic::{catch_unwind, AssertUnwindSafe};

    /// Spawns a task on the simulated executor.
    pub fn spawn(fut: impl Future<Output = ()> + Send + 'static) {
        sim_core::spawn(Box::pin(fut));
    }

    /// Queues `func` as a blocking job. The scheduler decides when it starts and,
    /// separately, when its result is delivered. A panic in `func` drops the sender, which
    /// is how the real pool reports it (the receiver then yields `RecvError`).
    pub fn schedule_blocking<T, F>(func: F) -> Receiver<T>
    where
        T: Send + 'static,
        F: FnOnce() -> T + Send + 'static,
    {
        let (sender, receiver) = real_safina::sync::oneshot();
        sim_core::queue_job(Box::new(move || {
            let _ = sim_core::take_last_panic();
            let res = catch_unwind(AssertUnwindSafe(func));
            match res {
                Ok(v) => Box::new(move || {
                    let _ = sender.send(v);
                }) as Box<dyn FnOnce() + Send>,
                Err(_) => {
                    let info = sim_core::take_last_panic();
                    sim_core::with(|w| {
                        w.count("job.panicked");
                        w.note(format!(
                            "job panicked: {}",
                            info.map(|i| format!("{} at {}", i.message, i.location))
                                .unwrap_or_else(|| "deliberate".to_string())
                        ));
                    });
                    Box::new(move || drop(sender)) as Box<dyn FnOnce() + Send>
                }
            }
        }));
        receiver
    }
}

pub mod timer {
    pub use real_safina::timer::{DeadlineError, DeadlineExceededError, TimerThreadNotStarted};
    use std::future::Future;
    use std::pin::Pin;
    use std::task::{Context, Poll};
    use std::time::Duration;

    pub struct SleepFuture {
        deadline_ns: u64,
        key: Option<(u64, u64)>,
    }
    impl SleepFuture {
        /// As in safina: completes after `deadline`. The real-clock deadline is converted to
        /// a span of VIRTUAL time from now (the simulated timer thread always runs).
        #[must_use]
        pub fn new(deadline: std::time::Instant) -> Self {
            let d = u64::try_from(deadline.saturating_duration_since(std::time::Instant::now()).as_nanos()).unwrap_or(u64::MAX);
            sim_core::with(|w| w.count("timer.sleep_for"));
            SleepFuture { deadline_ns: sim_core::now_ns().saturating_add(d), key: None }
        }
    }
    impl Future for SleepFuture {
        type Output = Result<(), TimerThreadNotStarted>;
        fn poll(mut self: Pin<&mut Self>, cx: &mut Context<'_>) -> Poll<Self::Output> {
            if sim_core::now_ns() >= self.deadline_ns {
                return Poll::Ready(Ok(()));
            }
            // (Re-)register with the current waker.
            if let Some(k) = self.key.take() {
                sim_core::with(|w| w.timers.remove(&k));
            }
            self.key = Some(sim_core::add_timer(self.deadline_ns, cx.waker().clone()));
            Poll::Pending
        }
    }
    impl Drop for SleepFuture {
        fn drop(&mut self) {
            if let Some(k) = self.key.take() {
                let _ = sim_core::try_with(|w| w.timers.remove(&k));
            }
        }
    }

    /// No-op in simulation (timers fire on the virtual clock).
    pub fn start_timer_thread() {}

    /// Returns after the given instant, measured on the virtual clock relative to "now".
    pub async fn sleep_until(deadline: std::time::Instant) {
        sleep_for(deadline.saturating_duration_since(std::time::Instant::now())).await;
    }

    /// Awaits `fut`, or gives up after `duration` of VIRTUAL time.
    pub async fn with_timeout<Fut: Future>(fut: Fut, duration: Duration) -> Result<Fut::Output, DeadlineExceededError> {
        let mut fut = Box::pin(fut);
        let mut sleep = Box::pin(sleep_for(duration));
        std::future::poll_fn(move |cx| {
            if let Poll::Ready(v) = fut.as_mut().poll(cx) {
                return Poll::Ready(Ok(v));
            }
            if let Poll::Ready(()) = sleep.as_mut().poll(cx) {
                return Poll::Ready(Err(DeadlineExceededError));
            }
            Poll::Pending
        })
        .await
    }

    /// Awaits `fut`, or gives up at `deadline` (converted to a virtual-time span from now).
    pub async fn with_deadline<Fut: Future>(fut: Fut, deadline: std::time::Instant) -> Result<Fut::Output, DeadlineExceededError> {
        with_timeout(fut, deadline.saturating_duration_since(std::time::Instant::now())).await
    }

    /// Returns `duration` of virtual time from now.
    pub async fn sleep_for(duration: Duration) {
        let now = sim_core::now_ns();
        let d = u64::try_from(duration.as_nanos()).unwrap_or(u64::MAX);
        sim_core::with(|w| w.count("timer.sleep_for"));
        let _ = SleepFuture {
            deadline_ns: now.saturating_add(d),
            key: None,
        }
        .await;
    }
}
