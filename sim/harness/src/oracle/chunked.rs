//! Independent strict decoder for the chunked transfer coding (RFC 7230 section 4.1), as
//! emitted by a server that uses no chunk extensions and no trailers. Leading zeros and
//! upper-case digits in the size line are legal (chunk-size = 1*HEXDIG).

#[derive(Debug, Clone, PartialEq, Eq)]
pub enum ChunkedEnd {
    /// Terminating `0 CRLF CRLF` seen; `consumed` bytes were used.
    Complete { consumed: usize },
    /// Input ended at a chunk boundary (after a complete chunk, before the next size line).
    CleanCut,
    /// Input ended inside a chunk (size line, data or trailing CRLF).
    MidChunk,
    Invalid(String),
}

#[derive(Debug, Clone)]
pub struct Decoded {
    pub data: Vec<u8>,
    pub chunk_lens: Vec<usize>,
    pub end: ChunkedEnd,
}

pub fn decode(input: &[u8]) -> Decoded {
    let mut pos = 0usize;
    let mut data = Vec::new();
    let mut chunk_lens = Vec::new();
    loop {
        if pos == input.len() {
            return Decoded { data, chunk_lens, end: ChunkedEnd::CleanCut };
        }
        // size line
        let mut i = pos;
        let mut size: usize = 0;
        let mut digits = 0;
        while i < input.len() && input[i].is_ascii_hexdigit() {
            let d = (input[i] as char).to_digit(16).unwrap() as usize;
            size = match size.checked_mul(16).and_then(|s| s.checked_add(d)) {
                Some(s) => s,
                None => return Decoded { data, chunk_lens, end: ChunkedEnd::Invalid("chunk size overflow".into()) },
            };
            digits += 1;
            i += 1;
            if digits > 16 {
                return Decoded { data, chunk_lens, end: ChunkedEnd::Invalid("chunk size too long".into()) };
            }
        }
        if i == input.len() {
            return Decoded { data, chunk_lens, end: ChunkedEnd::MidChunk };
        }
        if digits == 0 {
            return Decoded { data, chunk_lens, end: ChunkedEnd::Invalid(format!("no hex digits in size line at offset {pos}")) };
        }
        // CRLF
        if input[i] != b'\r' {
            return Decoded { data, chunk_lens, end: ChunkedEnd::Invalid(format!("byte {:#04x} after chunk size at offset {i}", input[i])) };
        }
        if i + 1 == input.len() {
            return Decoded { data, chunk_lens, end: ChunkedEnd::MidChunk };
        }
        if input[i + 1] != b'\n' {
            return Decoded { data, chunk_lens, end: ChunkedEnd::Invalid(format!("CR not followed by LF at offset {i}")) };
        }
        i += 2;
        if size == 0 {
            // last-chunk, no trailers: CRLF must follow
            if input.len() < i + 2 {
                if input[i..].iter().zip(b"\r\n").all(|(a, b)| a == b) {
                    return Decoded { data, chunk_lens, end: ChunkedEnd::MidChunk };
                }
                return Decoded { data, chunk_lens, end: ChunkedEnd::Invalid("garbage after last-chunk".into()) };
            }
            if &input[i..i + 2] != b"\r\n" {
                return Decoded { data, chunk_lens, end: ChunkedEnd::Invalid("last-chunk not followed by CRLF (trailers are not expected)".into()) };
            }
            return Decoded { data, chunk_lens, end: ChunkedEnd::Complete { consumed: i + 2 } };
        }
        if input.len() < i + size {
            data.extend_from_slice(&input[i..]);
            return Decoded { data, chunk_lens, end: ChunkedEnd::MidChunk };
        }
        data.extend_from_slice(&input[i..i + size]);
        i += size;
        if input.len() < i + 2 {
            if input[i..].iter().zip(b"\r\n").all(|(a, b)| a == b) {
                return Decoded { data, chunk_lens, end: ChunkedEnd::MidChunk };
            }
            return Decoded { data, chunk_lens, end: ChunkedEnd::Invalid("chunk data not followed by CRLF".into()) };
        }
        if &input[i..i + 2] != b"\r\n" {
            return Decoded { data, chunk_lens, end: ChunkedEnd::Invalid(format!("chunk data not followed by CRLF at offset {i}")) };
        }
        chunk_lens.push(size);
        pos = i + 2;
    }
}
