pub mod chunked;
pub mod http;
pub mod sse;
