pub mod chunked;
pub mod http;
