//! Independent implementation of the WHATWG event-stream parsing algorithm
//! (https://html.spec.whatwg.org/multipage/server-sent-events.html#event-stream-interpretation).

#[derive(Debug, Clone, PartialEq, Eq)]
pub struct Dispatched {
    pub ty: String,
    pub data: String,
}

#[derive(Debug, Default)]
pub struct SseParser {
    data: String,
    ty: String,
    pub last_event_id: Option<String>,
    pub retry: Option<u64>,
    pub events: Vec<Dispatched>,
    pub comments: usize,
    pub unknown_fields: Vec<String>,
    /// number of times `id` or `retry` fields were seen
    pub id_fields: usize,
    pub retry_fields: usize,
}

/// Splits a decoded stream into lines on CRLF, LF or CR. The last element is the
/// unterminated remainder (possibly empty).
pub fn split_lines(s: &str) -> (Vec<&str>, &str) {
    let b = s.as_bytes();
    let mut lines = Vec::new();
    let mut start = 0;
    let mut i = 0;
    while i < b.len() {
        match b[i] {
            b'\n' => {
                lines.push(&s[start..i]);
                i += 1;
                start = i;
            }
            b'\r' => {
                lines.push(&s[start..i]);
                i += 1;
                if i < b.len() && b[i] == b'\n' {
                    i += 1;
                }
                start = i;
            }
            _ => i += 1,
        }
    }
    (lines, &s[start..])
}

impl SseParser {
    pub fn line(&mut self, line: &str) {
        if line.is_empty() {
            self.dispatch();
            return;
        }
        if line.starts_with(':') {
            self.comments += 1;
            return;
        }
        let (field, value) = match line.find(':') {
            Some(i) => {
                let v = &line[i + 1..];
                (&line[..i], v.strip_prefix(' ').unwrap_or(v))
            }
            None => (line, ""),
        };
        match field {
            "event" => self.ty = value.to_string(),
            "data" => {
                self.data.push_str(value);
                self.data.push('\n');
            }
            "id" => {
                self.id_fields += 1;
                if !value.contains('\0') {
                    self.last_event_id = Some(value.to_string());
                }
            }
            "retry" => {
                self.retry_fields += 1;
                if !value.is_empty() && value.bytes().all(|b| b.is_ascii_digit()) {
                    self.retry = value.parse().ok();
                }
            }
            other => self.unknown_fields.push(other.to_string()),
        }
    }

    pub fn dispatch(&mut self) {
        if self.data.is_empty() {
            self.data.clear();
            self.ty.clear();
            return;
        }
        if self.data.ends_with('\n') {
            self.data.pop();
        }
        let ty = if self.ty.is_empty() { "message".to_string() } else { std::mem::take(&mut self.ty) };
        self.events.push(Dispatched { ty, data: std::mem::take(&mut self.data) });
        self.ty.clear();
    }

    /// Conformant parse of a whole stream (only complete, terminated lines are processed;
    /// at end of stream pending data is discarded, as the specification says).
    pub fn feed_stream(&mut self, bytes: &[u8]) {
        let s = String::from_utf8_lossy(bytes);
        let s = s.strip_prefix('\u{feff}').unwrap_or(&s);
        let (lines, _rest) = split_lines(s);
        for l in lines {
            self.line(l);
        }
    }

    /// Chunk-delimited mode: one HTTP chunk is one block; a dispatch is forced at the end
    /// of every chunk (used because the crate's blocks carry no blank line - a known
    /// finding - so that the remaining clauses can still be judged).
    pub fn feed_chunk(&mut self, bytes: &[u8]) {
        let s = String::from_utf8_lossy(bytes);
        let (lines, rest) = split_lines(&s);
        for l in lines {
            self.line(l);
        }
        if !rest.is_empty() {
            self.line(rest);
        }
        self.dispatch();
    }
}

/// What a client can recover from data: line terminators normalised to LF.
pub fn normalise_data(d: &str) -> String {
    d.replace("\r\n", "\n").replace('\r', "\n")
}
