//! Independent strict parser for a transcript of HTTP/1.1 responses as a client sees
//! them on one connection. Deliberately shares no code with servlin.

use super::chunked::{decode, ChunkedEnd};

#[derive(Debug, Clone, PartialEq, Eq)]
pub enum Framing {
    ContentLength(u64),
    Chunked,
}

#[derive(Debug, Clone)]
pub struct Resp {
    pub code: u16,
    pub reason: String,
    pub headers: Vec<(String, String)>,
    pub body: Vec<u8>,
    pub framing: Framing,
    /// Offsets of this message within the transcript.
    pub start: usize,
    pub end: usize,
    pub chunk_lens: Vec<usize>,
}
impl Resp {
    pub fn header_all(&self, name: &str) -> Vec<&str> {
        self.headers.iter().filter(|(n, _)| n.eq_ignore_ascii_case(name)).map(|(_, v)| v.as_str()).collect()
    }
    pub fn header(&self, name: &str) -> Option<&str> {
        self.header_all(name).first().copied()
    }
    /// Fields that servlin adds by itself, as opposed to those the application set.
    pub fn user_headers(&self) -> Vec<(String, String)> {
        // Automatic fields come first and are lower-case; the caller compares the tail.
        self.headers.clone()
    }
}

#[derive(Debug, Clone, PartialEq, Eq)]
pub enum End {
    /// The transcript ends exactly at a message boundary.
    Clean,
    /// The last message is cut short (where).
    Truncated(String),
    /// Bytes that cannot start or continue a well-formed response.
    Invalid(String),
}

fn is_tchar(b: u8) -> bool {
    b.is_ascii_alphanumeric() || b"!#$%&'*+-.^_`|~".contains(&b)
}

fn find(hay: &[u8], needle: &[u8]) -> Option<usize> {
    if needle.is_empty() || hay.len() < needle.len() {
        return None;
    }
    (0..=hay.len() - needle.len()).find(|&i| &hay[i..i + needle.len()] == needle)
}

pub fn parse_transcript(t: &[u8]) -> (Vec<Resp>, End) {
    let mut out = Vec::new();
    let mut pos = 0usize;
    while pos < t.len() {
        let rest = &t[pos..];
        let head_end = match find(rest, b"\r\n\r\n") {
            Some(i) => i,
            None => {
                // A truncated head must still be a prefix of something plausible.
                let pre = b"HTTP/1.1 ";
                let k = rest.len().min(pre.len());
                if rest[..k] != pre[..k] {
                    return (out, End::Invalid(format!("bytes at offset {pos} do not start a status line")));
                }
                return (out, End::Truncated("head".into()));
            }
        };
        let head = &rest[..head_end];
        let mut lines = head.split(|b| *b == b'\n');
        let status = lines.next().unwrap_or(b"");
        // every line but the last one inside `head` must end with CR
        let status = match status.strip_suffix(b"\r") {
            Some(s) => s,
            None if head.contains(&b'\n') => return (out, End::Invalid("bare LF in head".into())),
            None => status,
        };
        // status-line = HTTP/1.1 SP 3DIGIT SP reason
        if !status.starts_with(b"HTTP/1.1 ") {
            return (out, End::Invalid(format!("bad status line at offset {pos}: {:?}", String::from_utf8_lossy(status))));
        }
        let after = &status[9..];
        let sp = match after.iter().position(|b| *b == b' ') {
            Some(i) => i,
            None => return (out, End::Invalid("status line without reason separator".into())),
        };
        let code_bytes = &after[..sp];
        if code_bytes.is_empty() || !code_bytes.iter().all(u8::is_ascii_digit) || code_bytes.len() > 5 {
            return (out, End::Invalid("status code is not digits".into()));
        }
        let code: u16 = match std::str::from_utf8(code_bytes).unwrap().parse() {
            Ok(c) => c,
            Err(_) => return (out, End::Invalid("status code out of range".into())),
        };
        let reason = &after[sp + 1..];
        if !reason.iter().all(|b| *b == b'\t' || *b == b' ' || (0x21..=0x7e).contains(b)) {
            return (out, End::Invalid("reason phrase contains control bytes".into()));
        }
        let mut headers = Vec::new();
        let all_lines: Vec<&[u8]> = head.split(|b| *b == b'\n').collect();
        for (li, line) in all_lines.iter().enumerate().skip(1) {
            let line = if li + 1 < all_lines.len() {
                match line.strip_suffix(b"\r") {
                    Some(l) => l,
                    None => return (out, End::Invalid("bare LF in head".into())),
                }
            } else {
                line
            };
            let colon = match line.iter().position(|b| *b == b':') {
                Some(i) => i,
                None => return (out, End::Invalid(format!("field line without colon: {:?}", String::from_utf8_lossy(line)))),
            };
            let name = &line[..colon];
            if name.is_empty() || !name.iter().all(|b| is_tchar(*b)) {
                return (out, End::Invalid(format!("field name is not a token: {:?}", String::from_utf8_lossy(name))));
            }
            let mut val = &line[colon + 1..];
            while let Some((f, r)) = val.split_first() {
                if *f == b' ' || *f == b'\t' { val = r } else { break }
            }
            while let Some((l, r)) = val.split_last() {
                if *l == b' ' || *l == b'\t' { val = r } else { break }
            }
            if val.iter().any(|b| *b == b'\r' || *b == 0 || *b == b'\n') {
                return (out, End::Invalid("field value contains CR/NUL".into()));
            }
            headers.push((String::from_utf8_lossy(name).to_string(), val.iter().map(|b| *b as char).collect::<String>()));
        }
        let cls: Vec<&String> = headers.iter().filter(|(n, _)| n.eq_ignore_ascii_case("content-length")).map(|(_, v)| v).collect();
        let tes: Vec<&String> = headers.iter().filter(|(n, _)| n.eq_ignore_ascii_case("transfer-encoding")).map(|(_, v)| v).collect();
        let body_start = pos + head_end + 4;
        let framing = match (cls.len(), tes.len()) {
            (1, 0) => {
                if cls[0].is_empty() || !cls[0].bytes().all(|b| b.is_ascii_digit()) {
                    return (out, End::Invalid(format!("content-length is not a number: {:?}", cls[0])));
                }
                match cls[0].parse::<u64>() {
                    Ok(n) => Framing::ContentLength(n),
                    Err(_) => return (out, End::Invalid("content-length overflows".into())),
                }
            }
            (0, 1) => {
                if !tes[0].eq_ignore_ascii_case("chunked") {
                    return (out, End::Invalid(format!("unexpected transfer-encoding {:?}", tes[0])));
                }
                Framing::Chunked
            }
            // 1xx, 204 and 304 responses never have a body and need no framing field
            (0, 0) if code / 100 == 1 || code == 204 || code == 304 => Framing::ContentLength(0),
            (0, 0) => return (out, End::Invalid("response has neither content-length nor transfer-encoding".into())),
            (a, b) => return (out, End::Invalid(format!("ambiguous framing: {a} content-length and {b} transfer-encoding fields"))),
        };
        match framing {
            Framing::ContentLength(n) => {
                let avail = (t.len() - body_start) as u64;
                if avail < n {
                    out.push(Resp {
                        code,
                        reason: String::from_utf8_lossy(reason).to_string(),
                        headers,
                        body: t[body_start..].to_vec(),
                        framing: Framing::ContentLength(n),
                        start: pos,
                        end: t.len(),
                        chunk_lens: vec![],
                    });
                    return (out, End::Truncated("body".into()));
                }
                let end = body_start + n as usize;
                out.push(Resp {
                    code,
                    reason: String::from_utf8_lossy(reason).to_string(),
                    headers,
                    body: t[body_start..end].to_vec(),
                    framing: Framing::ContentLength(n),
                    start: pos,
                    end,
                    chunk_lens: vec![],
                });
                pos = end;
            }
            Framing::Chunked => {
                let d = decode(&t[body_start..]);
                match d.end {
                    ChunkedEnd::Complete { consumed } => {
                        let end = body_start + consumed;
                        out.push(Resp {
                            code,
                            reason: String::from_utf8_lossy(reason).to_string(),
                            headers,
                            body: d.data,
                            framing: Framing::Chunked,
                            start: pos,
                            end,
                            chunk_lens: d.chunk_lens,
                        });
                        pos = end;
                    }
                    ChunkedEnd::CleanCut | ChunkedEnd::MidChunk => {
                        let what = if d.end == ChunkedEnd::CleanCut { "chunked-body-at-boundary" } else { "chunked-body-mid-chunk" };
                        out.push(Resp {
                            code,
                            reason: String::from_utf8_lossy(reason).to_string(),
                            headers,
                            body: d.data,
                            framing: Framing::Chunked,
                            start: pos,
                            end: t.len(),
                            chunk_lens: d.chunk_lens,
                        });
                        return (out, End::Truncated(what.into()));
                    }
                    ChunkedEnd::Invalid(e) => return (out, End::Invalid(format!("chunked body: {e}"))),
                }
            }
        }
    }
    (out, End::Clean)
}
