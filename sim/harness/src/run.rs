//! Run-level types shared by all scenarios: configuration, result, violation, and
//! helpers to execute one scenario run inside a fresh simulated world.

use serde_json::Value;
use sim_core::tape::{fnv1a, splitmix64};
use sim_core::Tape;
use std::collections::BTreeMap;

#[derive(Clone, Copy, Debug, PartialEq, Eq)]
pub enum Tier {
    Quick,
    Thorough,
}
impl Tier {
    pub fn as_str(self) -> &'static str {
        match self {
            Tier::Quick => "quick",
            Tier::Thorough => "thorough",
        }
    }
}

#[derive(Clone, Debug)]
pub struct Violation {
    /// Oracle clause id, e.g. "C04.handler_runs". The property id is the part before the dot.
    pub clause: String,
    pub detail: String,
}

#[derive(Clone, Debug)]
pub struct RunCfg {
    pub tier: Tier,
    /// Index of the run within its batch; enumerating scenarios derive their case from it.
    pub index: u64,
    /// Keep the event log and render a trace (replay / samples).
    pub keep_trace: bool,
}

#[derive(Default)]
pub struct RunResult {
    pub violation: Option<Violation>,
    pub counters: BTreeMap<String, u64>,
    pub sched_hash: u64,
    pub nontrivial: bool,
    pub steps: u64,
    pub sim_ns: u64,
    pub trace: Vec<String>,
    pub sample: Option<Value>,
    pub tape: Vec<u32>,
    pub harness_error: Option<String>,
}

/// What a scenario returns; the wrapper adds the world's counters, hash, tape.
#[derive(Default)]
pub struct Outcome {
    pub violation: Option<Violation>,
    pub nontrivial: bool,
    pub sample: Option<Value>,
    /// Extra hash material that distinguishes cases in engines without a scheduler.
    pub case_hash: u64,
    pub harness_error: Option<String>,
}
impl Outcome {
    pub fn ok() -> Self {
        Outcome::default()
    }
    pub fn fail(clause: &str, detail: impl Into<String>) -> Self {
        Outcome {
            violation: Some(Violation {
                clause: clause.to_string(),
                detail: detail.into(),
            }),
            nontrivial: true,
            ..Default::default()
        }
    }
}

pub type ScenarioFn = fn(&RunCfg) -> Outcome;

pub struct Scenario {
    pub name: &'static str,
    pub property: &'static str,
    pub func: ScenarioFn,
    /// Number of runs per tier. For enumerating scenarios this is the size of the enumeration.
    pub runs_quick: u64,
    pub runs_thorough: u64,
    pub doc: &'static str,
}

pub fn run_seed(base_seed: u64, scenario: &str, index: u64) -> u64 {
    let mut x = base_seed ^ fnv1a(scenario.as_bytes()) ^ index.wrapping_mul(0x9E37_79B9_7F4A_7C15);
    splitmix64(&mut x)
}

pub enum TapeSrc {
    Seed(u64),
    Replay(Vec<u32>),
}

/// Executes one run of `sc` in a fresh world.
pub fn execute(sc: &Scenario, cfg: &RunCfg, src: TapeSrc) -> RunResult {
    let tape = match src {
        TapeSrc::Seed(s) => Tape::search(s),
        TapeSrc::Replay(v) => Tape::replay(v),
    };
    servlin::log::clear_thread_local_log_tags();
    sim_core::begin(tape);
    let _ = sim_core::take_foreign_use();
    sim_core::with(|w| w.keep_events = cfg.keep_trace);
    let out = std::panic::catch_unwind(std::panic::AssertUnwindSafe(|| (sc.func)(cfg)));
    let out = match out {
        Ok(o) => o,
        Err(_) => {
            let info = sim_core::take_last_panic();
            let msg = info
                .map(|i| format!("{} at {}", i.message, i.location))
                .unwrap_or_else(|| "unknown panic".into());
            // A panic that escapes a scenario is attributed: under /repo/src it is the
            // system under test (reported as a violation by the scenario wrapper that
            // called it, normally); anything else is a harness error.
            if msg.contains("/repo/src/") {
                Outcome::fail(&format!("{}.panic", sc.property), format!("panic escaped from SUT call: {msg}"))
            } else {
                Outcome {
                    harness_error: Some(format!("scenario {} panicked: {msg}", sc.name)),
                    ..Default::default()
                }
            }
        }
    };
    let world = sim_core::end();
    let mut counters: BTreeMap<String, u64> = BTreeMap::new();
    for (k, v) in &world.counters {
        counters.insert((*k).to_string(), *v);
    }
    let mut harness_error = out.harness_error;
    if sim_core::take_foreign_use() {
        harness_error = Some("simulated API was used on a thread the simulator does not own (the system under test started a real thread?): this run cannot be decided".into());
    }
    if world.foreign_wake() {
        harness_error = Some("a waker was invoked from a foreign thread: un-owned nondeterminism".into());
    }
    let trace = if cfg.keep_trace {
        world.events.iter().map(|(seq, ev)| format!("{seq:>5} {ev:?}")).collect()
    } else {
        Vec::new()
    };
    RunResult {
        violation: out.violation,
        counters,
        sched_hash: sim_core::tape::mix(world.sched_hash, out.case_hash),
        nontrivial: out.nontrivial,
        steps: world.steps,
        sim_ns: world.now_ns,
        trace,
        sample: out.sample,
        tape: world.tape.consumed(),
        harness_error,
    }
}
