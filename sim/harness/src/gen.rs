//! Thin helpers over the world's tape, so scenario code reads naturally.
use sim_core::with;

pub fn below(n: u32) -> u32 {
    with(|w| w.tape.below(n))
}
pub fn range(lo: u32, hi: u32) -> u32 {
    with(|w| w.tape.range(lo, hi))
}
pub fn ratio(num: u32, den: u32) -> bool {
    with(|w| w.tape.ratio(num, den))
}
pub fn pick<T: Clone>(items: &[T]) -> T {
    with(|w| w.tape.pick(items).clone())
}
pub fn weighted(ws: &[u32]) -> usize {
    with(|w| w.tape.weighted(ws))
}
pub fn seed32() -> u32 {
    with(|w| w.tape.seed32())
}
pub fn count(name: &'static str) {
    with(|w| w.count(name));
}
pub fn note(s: impl Into<String>) {
    with(|w| w.note(s));
}
/// Shortens byte strings for messages.
pub fn show(b: &[u8]) -> String {
    let mut s = String::new();
    for &c in b.iter().take(160) {
        match c {
            b'\r' => s.push_str("\\r"),
            b'\n' => s.push_str("\\n"),
            b'\t' => s.push_str("\\t"),
            0x20..=0x7e => s.push(c as char),
            _ => s.push_str(&format!("\\x{c:02x}")),
        }
    }
    if b.len() > 160 {
        s.push_str(&format!("...({} bytes)", b.len()));
    }
    s
}
