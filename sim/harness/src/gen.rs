//! Thin helpers over the world's tape, so scenario code reads naturally.
use sim_core::with;

pub fn below(n: u32) -> u32 {
    with(|w| w.tape.below(n))
}
pub fn range(lo: u32, hi: u32) -> u32 {
    with(|w| w.tape.range(lo, hi))
}
pub fn ratio(num: u32, den: u32) -> bool {
    with(|w| w.tape.ratio(num, den))
}
pub fn pick<T: Clone>(items: &[T]) -> T {
    with(|w| w.tape.pick(items).clone())
}
pub fn weighted(ws: &[u32]) -> usize {
    with(|w| w.tape.weighted(ws))
}
pub fn seed32() -> u32 {
    with(|w| w.tape.seed32())
}
pub fn count(name: &'static str) {
    with(|w| w.count(name));
}
pub fn note(s: impl Into<String>) {
    with(|w| w.note(s));
}
/// (`Interrupted` is never in these lists: EINTR is transient by nature, a source that
/// reports it for ever does not exist, and a caller may legitimately retry it. It is injected
/// only as a one-shot fault, by the stages whose oracle accepts both giving up and a correct retry.)
/// Error kinds a failing read can carry (a socket, a pipe, a file). The first entries are the
/// common ones; the tail makes sure no code path depends on "the" error kind.
pub fn read_error_kind() -> std::io::ErrorKind {
    use std::io::ErrorKind as K;
    pick(&[
        K::ConnectionReset, K::ConnectionReset, K::Other, K::TimedOut, K::UnexpectedEof, K::ConnectionAborted, K::BrokenPipe, K::NotConnected, K::InvalidData,
        K::OutOfMemory, K::PermissionDenied, K::InvalidInput, K::WriteZero, K::Unsupported, K::NotFound,
    ])
}
/// Error kinds a failing write can carry.
pub fn write_error_kind() -> std::io::ErrorKind {
    use std::io::ErrorKind as K;
    pick(&[
        K::BrokenPipe, K::BrokenPipe, K::ConnectionReset, K::TimedOut, K::WriteZero, K::ConnectionAborted, K::Other, K::NotConnected, K::StorageFull, K::PermissionDenied,
        K::InvalidInput, K::OutOfMemory, K::UnexpectedEof, K::Unsupported,
    ])
}
/// Error kinds of file operations (open, create, read, write, close).
pub fn file_error_kind() -> std::io::ErrorKind {
    use std::io::ErrorKind as K;
    pick(&[K::Other, K::PermissionDenied, K::NotFound, K::StorageFull, K::UnexpectedEof, K::InvalidData, K::ReadOnlyFilesystem, K::TimedOut, K::OutOfMemory, K::InvalidInput, K::WriteZero])
}
/// Shortens byte strings for messages.
pub fn show(b: &[u8]) -> String {
    let mut s = String::new();
    for &c in b.iter().take(160) {
        match c {
            b'\r' => s.push_str("\\r"),
            b'\n' => s.push_str("\\n"),
            b'\t' => s.push_str("\\t"),
            0x20..=0x7e => s.push(c as char),
            _ => s.push_str(&format!("\\x{c:02x}")),
        }
    }
    if b.len() > 160 {
        s.push_str(&format!("...({} bytes)", b.len()));
    }
    s
}
