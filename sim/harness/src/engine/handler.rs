//! The scripted application handler and its invocation log (thread-local: a run is
//! single-threaded and jobs execute on the simulation thread).

use servlin::{ContentType, Request, Response, ResponseBody};
use sim_core::tape::content;
use std::cell::RefCell;
use std::collections::BTreeMap;
use std::io::Read;

#[derive(Clone, Debug, PartialEq, Eq)]
pub enum OnPending {
    /// Answer directly with the plan's response, without fetching the body.
    Respond,
    GetBody(u64),
    /// `req.recv_body(M)` helper.
    RecvBody(u64),
    Drop,
    Panic,
}

#[derive(Clone, Debug, PartialEq, Eq)]
pub enum OnReady {
    Respond,
    /// Ask for the body although it is already there (-> AlreadyGotBody, 500).
    GetBodyAgain(u64),
    Drop,
    Panic,
    /// Return an event-stream response; the sender is parked in `HandlerState::senders`.
    EventStream,
    /// Answer normally, but keep a clone of the request body beyond the call (an
    /// application's "recent uploads" list): parked in `HandlerState::kept_bodies`.
    RespondKeepingClone,
}

#[derive(Clone, Debug, PartialEq, Eq)]
pub struct RespSpec {
    pub code: u16,
    pub body_len: usize,
    pub body_seed: u32,
    pub ctype: u8,
    pub headers: Vec<(String, String)>,
}
impl RespSpec {
    pub fn simple(code: u16) -> Self {
        RespSpec {
            code,
            body_len: 0,
            body_seed: 0,
            ctype: 0,
            headers: Vec::new(),
        }
    }
    pub fn body(&self) -> Vec<u8> {
        content(self.body_seed, self.body_len)
    }
    pub fn content_type(&self) -> ContentType {
        match self.ctype {
            0 => ContentType::None,
            1 => ContentType::PlainText,
            2 => ContentType::Json,
            3 => ContentType::OctetStream,
            _ => ContentType::Html,
        }
    }
    pub fn build(&self) -> Response {
        let mut r = Response::new(self.code).with_type(self.content_type());
        if self.body_len > 0 {
            r = r.with_body(ResponseBody::Vec(self.body()));
        }
        for (n, v) in &self.headers {
            r = r.with_header(n, v.clone().try_into().unwrap());
        }
        r
    }
}

#[derive(Clone, Debug)]
pub struct Plan {
    pub on_pending: OnPending,
    pub on_ready: OnReady,
    pub resp: RespSpec,
}
impl Plan {
    pub fn respond(code: u16) -> Self {
        Plan {
            on_pending: OnPending::Respond,
            on_ready: OnReady::Respond,
            resp: RespSpec::simple(code),
        }
    }
}

#[derive(Clone, Debug)]
pub struct Call {
    pub seq: u64,
    pub conn: usize,
    pub path: String,
    pub method: String,
    pub pending: bool,
    /// Body bytes as read through `req.body.reader()`; None when pending or unreadable.
    pub body: Option<Vec<u8>>,
    pub body_kind: &'static str,
    pub body_len_reported: Option<u64>,
    pub headers: Vec<(String, String)>,
    pub ctype: String,
    pub expect: bool,
    pub chunked: bool,
    pub gzip: bool,
    pub content_length: Option<u64>,
    pub cookies: BTreeMap<String, String>,
    pub query: Option<String>,
    /// the blocking job that ran this call
    pub job: Option<u64>,
}

#[derive(Default)]
pub struct HandlerState {
    pub plans: BTreeMap<String, Plan>,
    pub default_plan: Option<Plan>,
    pub calls: Vec<Call>,
    pub senders: Vec<(String, servlin::EventSender)>,
    pub kept_bodies: Vec<servlin::RequestBody>,
    /// Bodies larger than this are not copied into the call log (digest only) - not used yet.
    pub max_in_memory_seen: usize,
    /// When set, builds the answer for requests whose body is ready (after logging the call).
    pub custom: Option<Box<dyn Fn(&Request) -> Response>>,
}

thread_local! {
    pub static HANDLER: RefCell<HandlerState> = RefCell::new(HandlerState::default());
}

pub fn reset() {
    HANDLER.with(|h| *h.borrow_mut() = HandlerState::default());
}

pub fn set_plan(path: &str, plan: Plan) {
    sim_core::with(|w| {
        if w.keep_events {
            w.note(format!("handler plan {path}: pending->{:?} ready->{:?} status {}", plan.on_pending, plan.on_ready, plan.resp.code));
        }
    });
    HANDLER.with(|h| h.borrow_mut().plans.insert(path.to_string(), plan));
}

pub fn calls() -> Vec<Call> {
    HANDLER.with(|h| h.borrow().calls.clone())
}

pub fn conn_of(req: &Request) -> usize {
    (req.remote_addr.port() as usize).wrapping_sub(10000)
}

fn body_kind(req: &Request) -> &'static str {
    use servlin::RequestBody as B;
    match &req.body {
        B::PendingKnown(_) => "pending-known",
        B::PendingUnknown => "pending-unknown",
        B::StaticBytes(_) => "static-bytes",
        B::StaticStr(_) => "static-str",
        B::Vec(_) => "vec",
        B::File(..) => "file",
        B::TempFile(..) => "tempfile",
    }
}

/// The handler given to `HttpServerBuilder::spawn`.
pub fn scripted_handler(req: Request) -> Response {
    let path = req.url().path().to_string();
    let pending = req.body.is_pending();
    let body = if pending {
        None
    } else {
        req.body.reader().ok().and_then(|mut r| {
            let mut v = Vec::new();
            r.read_to_end(&mut v).ok().map(|_| v)
        })
    };
    let seq = sim_core::with(|w| {
        w.seq += 1;
        w.seq
    });
    let call = Call {
        seq,
        conn: conn_of(&req),
        path: path.clone(),
        method: req.method().to_string(),
        pending,
        body,
        body_kind: body_kind(&req),
        body_len_reported: req.body.len(),
        headers: req.headers.iter().map(|h| (h.name.to_string(), h.value.to_string())).collect(),
        ctype: format!("{:?}", req.content_type),
        expect: req.expect_continue,
        chunked: req.chunked,
        gzip: req.gzip,
        content_length: req.content_length,
        cookies: req.cookies.iter().map(|(k, v)| (k.clone(), v.clone())).collect(),
        query: req.url().query().map(str::to_string),
        job: sim_core::with(|w| w.current_job),
    };
    sim_core::with(|w| w.note(format!("HandlerInvoked conn={} path={} pending={} body_kind={}", call.conn, call.path, call.pending, call.body_kind)));
    let plan = HANDLER.with(|h| {
        let mut h = h.borrow_mut();
        h.calls.push(call);
        // a request can name its plan in an `x-plan` field (several requests to one path
        // with different plans); otherwise the plan is looked up by path
        let by_field = req.headers.iter().find(|f| f.name.to_string().eq_ignore_ascii_case("x-plan")).and_then(|f| h.plans.get(&f.value.to_string()).cloned());
        by_field.or_else(|| h.plans.get(&path).cloned()).or_else(|| h.default_plan.clone())
    });
    if !pending {
        let custom = HANDLER.with(|h| h.borrow_mut().custom.take());
        if let Some(f) = custom {
            let resp = f(&req);
            HANDLER.with(|h| h.borrow_mut().custom = Some(f));
            return resp;
        }
    }
    let plan = match plan {
        Some(p) => p,
        None => return Response::new(299),
    };
    if pending {
        match plan.on_pending {
            OnPending::Respond => plan.resp.build(),
            OnPending::GetBody(m) => Response::get_body_and_reprocess(m),
            OnPending::RecvBody(m) => match req.recv_body(m) {
                Ok(_) => plan.resp.build(),
                Err(r) => r,
            },
            OnPending::Drop => Response::drop_connection(),
            OnPending::Panic => sim_core::deliberate_panic(),
        }
    } else {
        match plan.on_ready {
            OnReady::Respond => plan.resp.build(),
            OnReady::GetBodyAgain(m) => Response::get_body_and_reprocess(m),
            OnReady::Drop => Response::drop_connection(),
            OnReady::Panic => sim_core::deliberate_panic(),
            OnReady::RespondKeepingClone => {
                let copy = req.body.clone();
                HANDLER.with(|h| h.borrow_mut().kept_bodies.push(copy));
                plan.resp.build()
            }
            OnReady::EventStream => {
                let (sender, resp) = Response::event_stream();
                HANDLER.with(|h| h.borrow_mut().senders.push((path, sender)));
                resp
            }
        }
    }
}
