pub mod handler;
pub mod server;
pub mod stream;
