pub mod handler;
pub mod server;
