//! Full-server engine: the real `HttpServerBuilder::spawn` (accept loop, token set,
//! connection tasks, blocking-job wrapper) inside the simulated executor and network,
//! with scripted clients and a seeded scheduler. Runs to quiescence.

use super::handler;
use crate::oracle::http::{parse_transcript, End, Resp};
use crate::run::Violation;
use permit::Permit;
use servlin::HttpServerBuilder;
use sim_core::{with, JobId, TaskId};
use std::future::Future;
use std::path::PathBuf;
use std::pin::Pin;
use std::sync::Arc;
use std::task::{Context, Poll, Wake, Waker};

struct NoopWake;
impl Wake for NoopWake {
    fn wake(self: Arc<Self>) {}
}
pub fn noop_waker() -> Waker {
    Waker::from(Arc::new(NoopWake))
}

/// Polls a future that is known to complete without waiting (e.g. `spawn`, whose only
/// await is the simulated `bind`).
pub fn poll_ready<T>(fut: impl Future<Output = T>) -> Option<T> {
    let mut fut = Box::pin(fut);
    let waker = noop_waker();
    let mut cx = Context::from_waker(&waker);
    for _ in 0..16 {
        if let Poll::Ready(v) = Pin::new(&mut fut).poll(&mut cx) {
            return Some(v);
        }
    }
    None
}

#[derive(Clone, Debug)]
pub enum Op {
    Connect,
    Send(Vec<u8>),
    /// Wait until `n` complete non-1xx responses have arrived (or the server closed).
    AwaitFinal(usize),
    /// Wait until an interim 100 response (or a final response, or EOF) has arrived.
    Await100,
    /// Wait until at least this many response bytes have been received (or EOF).
    AwaitBytes(usize),
    Fin,
    Rst,
    Close,
    Pause(u32),
    StopReading,
    ResumeReading,
}

#[derive(Clone, Copy, Debug, PartialEq, Eq)]
pub enum Frag {
    /// As much as the socket takes.
    Whole,
    Byte,
    /// Tape-chosen fragment sizes.
    Random,
}

pub struct Client {
    pub ops: Vec<Op>,
    pub pc: usize,
    pub off: usize,
    pub pause_left: u32,
    pub conn: Option<usize>,
    pub refused: bool,
    pub received: Vec<u8>,
    pub reading: bool,
    pub frag: Frag,
    pub slow_read: bool,
    /// (number of complete responses, number of complete non-1xx responses, saw-100) for `received` as of `parsed_len`.
    parsed_len: usize,
    parsed_total: usize,
    parsed_final: usize,
    parsed_100: bool,
    pub port_override: Option<u16>,
    /// Applied to the connection when it is made: the server's writes fail after this many bytes.
    pub fail_server_write_at: Option<(u64, std::io::ErrorKind)>,
    pub keep_server_log: bool,
}
impl Client {
    pub fn new(ops: Vec<Op>, frag: Frag) -> Self {
        Client {
            ops,
            pc: 0,
            off: 0,
            pause_left: 0,
            conn: None,
            refused: false,
            received: Vec::new(),
            reading: true,
            frag,
            slow_read: false,
            parsed_len: usize::MAX,
            parsed_total: 0,
            parsed_final: 0,
            parsed_100: false,
            port_override: None,
            fail_server_write_at: None,
            keep_server_log: false,
        }
    }
    pub fn done(&self) -> bool {
        self.pc >= self.ops.len()
    }
    fn reparse(&mut self) {
        if self.parsed_len == self.received.len() {
            return;
        }
        let (resps, end) = parse_transcript(&self.received);
        // The parser also returns a last, truncated message when it stops inside a body.
        let incomplete = matches!(&end, End::Truncated(what) if what != "head") as usize;
        let complete: &[Resp] = &resps[..resps.len().saturating_sub(incomplete)];
        self.parsed_total = complete.len();
        self.parsed_final = complete.iter().filter(|r| r.code / 100 != 1).count();
        self.parsed_100 = complete.iter().any(|r| r.code == 100);
        self.parsed_len = self.received.len();
    }
}

#[derive(Clone, Debug)]
pub struct ServerCfg {
    pub max_conns: usize,
    pub small_body_len: usize,
    pub cache_dir: Option<PathBuf>,
    pub with_permit: bool,
}

#[derive(Clone, Debug)]
pub struct Weights {
    pub poll: u32,
    pub job_start: u32,
    pub job_finish: u32,
    pub client_step: u32,
    pub client_read: u32,
    pub extra: u32,
    /// Chance (of 64) to let a timer fire although other actions are enabled.
    pub early_timer_64: u32,
}
impl Default for Weights {
    fn default() -> Self {
        Weights {
            poll: 8,
            job_start: 4,
            job_finish: 4,
            client_step: 6,
            client_read: 4,
            extra: 2,
            early_timer_64: 0,
        }
    }
}

#[derive(Clone, Copy, Debug, PartialEq, Eq)]
pub enum Act {
    Poll(TaskId),
    JobStart(JobId),
    JobFinish(JobId),
    ClientStep(usize),
    ClientRead(usize),
    Timer,
    Extra(u32),
}

pub trait Extras {
    fn enabled(&mut self, _eng: &Engine) -> Vec<u32> {
        Vec::new()
    }
    fn step(&mut self, _eng: &mut Engine, _id: u32) {}
    fn after_step(&mut self, _eng: &mut Engine, _act: Act) -> Option<Violation> {
        None
    }
}
pub struct NoExtras;
impl Extras for NoExtras {}

pub struct Engine {
    pub port: u16,
    pub stopped_rx: Option<safina::sync::Receiver<()>>,
    pub stopped_at: Option<u64>,
    pub stopped_sender_dropped: bool,
    pub permit: Option<Permit>,
    pub revoked_at: Option<u64>,
    pub clients: Vec<Client>,
    pub weights: Weights,
    pub hold_jobs: bool,
    /// jobs whose result is never delivered: a handler that never returns
    pub stuck_jobs: std::collections::BTreeSet<u64>,
    pub step_cap: u64,
    pub hit_cap: bool,
    pub cfg: ServerCfg,
    /// Most connections simultaneously accepted-and-not-closed by the server.
    pub max_open_server_conns: usize,
}

impl Engine {
    pub fn start(cfg: ServerCfg) -> Result<Engine, String> {
        handler::reset();
        let mut b = HttpServerBuilder::new().max_conns(cfg.max_conns).small_body_len(cfg.small_body_len);
        if let Some(d) = &cfg.cache_dir {
            b = b.receive_large_bodies(d);
        }
        let permit = if cfg.with_permit {
            let p = Permit::new();
            b = b.permit(p.new_sub());
            Some(p)
        } else {
            None
        };
        let res = poll_ready(b.spawn(handler::scripted_handler)).ok_or("spawn did not complete")?;
        let (addr, rx) = res.map_err(|e| format!("spawn failed: {e}"))?;
        Ok(Engine {
            port: addr.port(),
            stopped_rx: Some(rx),
            stopped_at: None,
            stopped_sender_dropped: false,
            permit,
            revoked_at: None,
            clients: Vec::new(),
            weights: Weights::default(),
            hold_jobs: false,
            stuck_jobs: std::collections::BTreeSet::new(),
            step_cap: 200_000,
            hit_cap: false,
            cfg,
            max_open_server_conns: 0,
        })
    }

    pub fn add_client(&mut self, c: Client) -> usize {
        if with(|w| w.keep_events) {
            let ops: Vec<String> = c
                .ops
                .iter()
                .map(|o| match o {
                    Op::Send(b) => format!("Send({} bytes: {})", b.len(), crate::gen::show(&b[..b.len().min(70)])),
                    other => format!("{other:?}"),
                })
                .collect();
            let i = self.clients.len();
            with(|w| w.note(format!("client {i} script ({:?}, slow_read={}): {ops:?}", c.frag, c.slow_read)));
        }
        self.clients.push(c);
        self.clients.len() - 1
    }

    /// Revokes the server's permit (drops the apex permit).
    pub fn revoke(&mut self) {
        if let Some(p) = self.permit.take() {
            drop(p);
            let seq = with(|w| {
                w.note("Revoked");
                w.count("probe.revoked");
                w.seq
            });
            self.revoked_at = Some(seq);
        }
    }

    fn poll_stopped(&mut self) {
        if self.stopped_at.is_some() || self.stopped_sender_dropped {
            return;
        }
        if let Some(rx) = &self.stopped_rx {
            match rx.try_recv() {
                Ok(()) => {
                    let seq = with(|w| {
                        w.note("StoppedSignal");
                        w.seq
                    });
                    self.stopped_at = Some(seq);
                }
                Err(std::sync::mpsc::TryRecvError::Disconnected) => {
                    self.stopped_sender_dropped = true;
                    with(|w| w.note("stopped-signal sender dropped without sending"));
                }
                Err(std::sync::mpsc::TryRecvError::Empty) => {}
            }
        }
    }

    fn client_step_enabled(&self, i: usize) -> bool {
        let c = &self.clients[i];
        if c.done() {
            return false;
        }
        match &c.ops[c.pc] {
            Op::Connect | Op::Fin | Op::Rst | Op::Close | Op::Pause(_) | Op::StopReading | Op::ResumeReading => true,
            Op::Send(_) => match c.conn {
                None => true, // skipped
                Some(id) => with(|w| {
                    let k = &w.net.conns[id];
                    k.rst || k.client_closed || k.c2s.fin || k.server_closed || k.c2s.free() > 0
                }),
            },
            Op::AwaitFinal(n) => match c.conn {
                None => true,
                Some(id) => c.parsed_final >= *n || with(|w| w.client_at_eof(id) || w.net.conns[id].client_closed),
            },
            Op::Await100 => match c.conn {
                None => true,
                Some(id) => c.parsed_100 || c.parsed_final > 0 || with(|w| w.client_at_eof(id) || w.net.conns[id].client_closed),
            },
            Op::AwaitBytes(n) => match c.conn {
                None => true,
                Some(id) => c.received.len() >= *n || with(|w| w.client_at_eof(id) || w.net.conns[id].client_closed),
            },
        }
    }

    fn client_read_enabled(&self, i: usize) -> bool {
        let c = &self.clients[i];
        match c.conn {
            Some(id) if c.reading => with(|w| w.client_readable(id) > 0),
            _ => false,
        }
    }

    fn do_client_step(&mut self, i: usize) {
        let port = self.clients[i].port_override.unwrap_or(self.port);
        let c = &mut self.clients[i];
        let op = c.ops[c.pc].clone();
        match op {
            Op::Connect => {
                c.conn = with(|w| w.client_connect(port));
                c.refused = c.conn.is_none();
                if let Some(id) = c.conn {
                    let (f, k) = (c.fail_server_write_at, c.keep_server_log);
                    with(|w| {
                        w.net.conns[id].fail_write_at = f;
                        w.net.conns[id].keep_s2c_log = k;
                    });
                }
                c.pc += 1;
            }
            Op::Send(data) => {
                let id = match c.conn {
                    Some(id) => id,
                    None => {
                        c.pc += 1;
                        return;
                    }
                };
                let rest = &data[c.off..];
                let frag = c.frag;
                let n = with(|w| {
                    let want = match frag {
                        Frag::Whole => rest.len(),
                        Frag::Byte => 1.min(rest.len()),
                        Frag::Random => {
                            if rest.len() <= 1 {
                                rest.len()
                            } else {
                                // mostly small fragments, sometimes everything
                                match w.tape.below(4) {
                                    0 => rest.len(),
                                    1 => 1,
                                    2 => 1 + w.tape.below(rest.len().min(64) as u32) as usize,
                                    _ => 1 + w.tape.below(rest.len().min(8192) as u32) as usize,
                                }
                            }
                        }
                    };
                    let k = &w.net.conns[id];
                    if k.rst || k.client_closed || k.c2s.fin {
                        return rest.len(); // nothing can be sent any more: drop the rest
                    }
                    w.client_write(id, &rest[..want.min(rest.len())])
                });
                c.off += n;
                if c.off >= data.len() {
                    c.off = 0;
                    c.pc += 1;
                }
            }
            Op::AwaitFinal(_) | Op::Await100 | Op::AwaitBytes(_) => {
                c.pc += 1;
            }
            Op::Fin => {
                if let Some(id) = c.conn {
                    with(|w| w.client_shutdown_write(id));
                }
                c.pc += 1;
            }
            Op::Rst => {
                if let Some(id) = c.conn {
                    with(|w| {
                        w.client_rst(id);
                        w.count("fault.client_rst");
                    });
                }
                c.pc += 1;
            }
            Op::Close => {
                if let Some(id) = c.conn {
                    with(|w| w.client_close(id));
                }
                c.pc += 1;
            }
            Op::Pause(n) => {
                if c.pause_left == 0 {
                    c.pause_left = n;
                }
                c.pause_left = c.pause_left.saturating_sub(1);
                if c.pause_left == 0 {
                    c.pc += 1;
                }
            }
            Op::StopReading => {
                c.reading = false;
                c.pc += 1;
            }
            Op::ResumeReading => {
                c.reading = true;
                c.pc += 1;
            }
        }
    }

    fn do_client_read(&mut self, i: usize) {
        let c = &mut self.clients[i];
        if let Some(id) = c.conn {
            let slow = c.slow_read;
            let data = with(|w| {
                let avail = w.client_readable(id);
                let n = if slow && avail > 1 { 1 + w.tape.below(avail.min(4096) as u32) as usize } else { avail };
                w.client_read(id, n)
            });
            c.received.extend_from_slice(&data);
            c.reparse();
        }
    }

    pub fn enabled(&self, extras: &mut dyn Extras) -> Vec<(u32, Vec<Act>)> {
        let w = &self.weights;
        let mut cats: Vec<(u32, Vec<Act>)> = Vec::new();
        let polls: Vec<Act> = with(|wd| wd.runnable()).into_iter().map(Act::Poll).collect();
        cats.push((w.poll, polls));
        cats.push((w.job_start, sim_core::queued_jobs().into_iter().map(Act::JobStart).collect()));
        if !self.hold_jobs {
            cats.push((w.job_finish, sim_core::running_jobs().into_iter().filter(|j| !self.stuck_jobs.contains(j)).map(Act::JobFinish).collect()));
        }
        cats.push((w.client_step, (0..self.clients.len()).filter(|i| self.client_step_enabled(*i)).map(Act::ClientStep).collect()));
        cats.push((w.client_read, (0..self.clients.len()).filter(|i| self.client_read_enabled(*i)).map(Act::ClientRead).collect()));
        cats.push((w.extra, extras.enabled(self).into_iter().map(Act::Extra).collect()));
        cats.retain(|(wt, v)| *wt > 0 && !v.is_empty());
        cats
    }

    pub fn exec(&mut self, act: Act, extras: &mut dyn Extras) {
        sim_core::heartbeat();
        match act {
            Act::Poll(t) => {
                with(|w| w.hash_step(1, t));
                sim_core::poll_task(t);
            }
            Act::JobStart(j) => {
                with(|w| w.hash_step(2, j));
                sim_core::start_job(j);
            }
            Act::JobFinish(j) => {
                with(|w| w.hash_step(3, j));
                sim_core::finish_job(j);
            }
            Act::ClientStep(i) => {
                let pc = self.clients[i].pc as u64;
                with(|w| w.hash_step(4, (i as u64) << 16 | pc));
                self.do_client_step(i);
                if with(|w| w.keep_events) {
                    let (pc2, off) = (self.clients[i].pc, self.clients[i].off);
                    with(|w| w.note(format!("client {i} step: script position {pc} -> {pc2} (offset {off})")));
                }
            }
            Act::ClientRead(i) => {
                with(|w| w.hash_step(5, i as u64));
                let before = self.clients[i].received.len();
                self.do_client_read(i);
                if with(|w| w.keep_events) {
                    let n = self.clients[i].received.len() - before;
                    with(|w| w.note(format!("client {i} read {n} bytes (total {})", before + n)));
                }
            }
            Act::Timer => {
                with(|w| w.hash_step(6, 0));
                sim_core::fire_next_timer();
            }
            Act::Extra(id) => {
                with(|w| w.hash_step(7, u64::from(id)));
                extras.step(self, id);
            }
        }
        self.poll_stopped();
        let open = with(|w| w.net.conns.iter().filter(|c| c.accepted && !c.server_closed).count());
        if open > self.max_open_server_conns {
            self.max_open_server_conns = open;
        }
    }

    /// Runs until quiescence (or the step cap). Returns a violation raised by `extras`.
    pub fn run(&mut self, extras: &mut dyn Extras) -> Option<Violation> {
        let mut steps = 0u64;
        loop {
            if steps >= self.step_cap {
                self.hit_cap = true;
                return None;
            }
            steps += 1;
            let cats = self.enabled(extras);
            let have_timer = with(|w| !w.timers.is_empty());
            let act = if cats.is_empty() {
                if have_timer {
                    Act::Timer
                } else {
                    return None; // quiescent
                }
            } else if have_timer && self.weights.early_timer_64 > 0 && with(|w| w.tape.ratio(self.weights.early_timer_64, 64)) {
                Act::Timer
            } else {
                let ws: Vec<u32> = cats.iter().map(|(w, _)| *w).collect();
                with(|w| {
                    let ci = if ws.len() == 1 { 0 } else { w.tape.weighted(&ws) };
                    let v = &cats[ci].1;
                    v[w.tape.below(v.len() as u32) as usize]
                })
            };
            self.exec(act, extras);
            if let Some(v) = extras.after_step(self, act) {
                return Some(v);
            }
        }
    }

    /// SUT task panics (located under /repo/src) recorded so far.
    pub fn sut_panics(&self) -> Vec<String> {
        with(|w| {
            w.task_panics
                .iter()
                .map(|(id, p)| format!("task {id} panicked: {} at {}", p.message, p.location))
                .collect()
        })
    }
}
