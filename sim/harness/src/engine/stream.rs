//! Function-level engine: scripted `AsyncRead` / `AsyncWrite` objects whose every
//! decision (piece lengths, short writes, spurious Pending, the offset of a fault) comes
//! from the tape or from an explicit plan, and a driver that polls a future to completion.

use futures_io::{AsyncRead, AsyncWrite};
use sim_core::with;
use std::future::Future;
use std::io;
use std::panic::{catch_unwind, AssertUnwindSafe};
use std::pin::Pin;
use std::sync::atomic::{AtomicU64, Ordering};
use std::sync::Arc;
use std::task::{Context, Poll, Wake, Waker};

pub struct CountWake(pub AtomicU64);
impl Wake for CountWake {
    fn wake(self: Arc<Self>) {
        self.0.fetch_add(1, Ordering::SeqCst);
    }
    fn wake_by_ref(self: &Arc<Self>) {
        self.0.fetch_add(1, Ordering::SeqCst);
    }
}

#[derive(Debug)]
pub enum Drive<T> {
    Done(T, u64),
    /// Returned Pending without arranging a wake-up: would hang forever.
    Stalled(u64),
    /// Still not finished after the poll cap.
    Cap(u64),
    Panicked(String),
}

/// Polls `fut` until it completes. A future that returns Pending without having been
/// woken is reported as stalled (nothing in this engine wakes asynchronously).
pub fn drive<T>(fut: impl Future<Output = T>, cap: u64) -> Drive<T> {
    let mut fut = Box::pin(fut);
    let cw = Arc::new(CountWake(AtomicU64::new(0)));
    let waker = Waker::from(cw.clone());
    let mut cx = Context::from_waker(&waker);
    let mut polls = 0u64;
    let _ = sim_core::take_last_panic();
    loop {
        polls += 1;
        sim_core::heartbeat();
        let before = cw.0.load(Ordering::SeqCst);
        let r = catch_unwind(AssertUnwindSafe(|| fut.as_mut().poll(&mut cx)));
        match r {
            Err(_) => {
                let info = sim_core::take_last_panic();
                // do not run the destructor of a half-polled future inside unwinding state
                std::mem::forget(fut);
                return Drive::Panicked(info.map(|i| format!("{} at {}", i.message, i.location)).unwrap_or_else(|| "panic".into()));
            }
            Ok(Poll::Ready(v)) => return Drive::Done(v, polls),
            Ok(Poll::Pending) => {
                if cw.0.load(Ordering::SeqCst) == before {
                    return Drive::Stalled(polls);
                }
                if polls >= cap {
                    return Drive::Cap(polls);
                }
            }
        }
    }
}

#[derive(Clone, Debug)]
pub enum Pieces {
    /// Deliver everything the caller's buffer takes.
    Whole,
    /// Explicit piece lengths, cycled; a piece is cut to the caller's buffer.
    List(Vec<usize>),
    /// Tape-chosen piece lengths in 1..=max.
    Random(usize),
}

#[derive(Clone, Debug, PartialEq, Eq)]
pub enum StreamEnd {
    Eof,
    Error(io::ErrorKind),
}

/// A reader over `data[..end_at]` followed by EOF or an error.
pub struct ScriptReader {
    pub data: Vec<u8>,
    pub pos: usize,
    pub end_at: usize,
    pub end: StreamEnd,
    pub pieces: Pieces,
    pub piece_idx: usize,
    /// chance/64 of a spurious Pending before each read
    pub pending_64: u32,
    pub reads: u64,
    pub piece_log: Vec<usize>,
    pub ended: bool,
    /// How many times the error is delivered (None = on every further read). A source
    /// whose error is one-shot goes on with `data[..resume_end_at]` and then EOF.
    pub errors_left: Option<u32>,
    pub resume_end_at: usize,
}
impl ScriptReader {
    pub fn new(data: Vec<u8>, pieces: Pieces) -> Self {
        let end_at = data.len();
        ScriptReader {
            data,
            pos: 0,
            end_at,
            end: StreamEnd::Eof,
            pieces,
            piece_idx: 0,
            pending_64: 0,
            reads: 0,
            piece_log: Vec::new(),
            ended: false,
            errors_left: None,
            resume_end_at: 0,
        }
    }
    pub fn remaining(&self) -> &[u8] {
        &self.data[self.pos..self.end_at]
    }
}
impl AsyncRead for ScriptReader {
    fn poll_read(mut self: Pin<&mut Self>, cx: &mut Context<'_>, buf: &mut [u8]) -> Poll<io::Result<usize>> {
        if buf.is_empty() {
            return Poll::Ready(Ok(0));
        }
        if self.pending_64 > 0 && with(|w| w.tape.ratio(self.pending_64, 64)) {
            cx.waker().wake_by_ref();
            return Poll::Pending;
        }
        self.reads += 1;
        let mut avail = self.end_at - self.pos;
        if avail == 0 {
            self.ended = true;
            match (self.end.clone(), self.errors_left) {
                (StreamEnd::Eof, _) => return Poll::Ready(Ok(0)),
                (StreamEnd::Error(_), Some(0)) => {
                    // the one-shot error is spent: the source goes on
                    if self.resume_end_at > self.end_at {
                        self.end_at = self.resume_end_at.min(self.data.len());
                        avail = self.end_at - self.pos;
                    }
                    if avail == 0 {
                        return Poll::Ready(Ok(0));
                    }
                }
                (StreamEnd::Error(k), left) => {
                    if let Some(n) = left {
                        self.errors_left = Some(n - 1);
                    }
                    return Poll::Ready(Err(io::Error::new(k, "simulated read error")));
                }
            }
        }
        let want = match &self.pieces {
            Pieces::Whole => avail,
            Pieces::List(v) => {
                let n = if v.is_empty() { avail } else { v[self.piece_idx % v.len()].max(1) };
                self.piece_idx += 1;
                n
            }
            Pieces::Random(max) => {
                let m = (*max).min(avail).max(1);
                1 + with(|w| w.tape.below(m as u32)) as usize
            }
        };
        let n = want.min(avail).min(buf.len());
        let pos = self.pos;
        buf[..n].copy_from_slice(&self.data[pos..pos + n]);
        self.pos += n;
        self.piece_log.push(n);
        Poll::Ready(Ok(n))
    }
}

/// A writer that records what it accepted, with short writes, spurious Pending and a
/// fault after exactly `fail_at` accepted bytes.
pub struct ScriptWriter {
    pub out: Vec<u8>,
    pub accept: Pieces,
    pub piece_idx: usize,
    pub pending_64: u32,
    pub fail_at: Option<(usize, io::ErrorKind)>,
    /// The fault is transient: it is reported once (when `fail_at` bytes have been accepted)
    /// and the sink then goes on accepting - what EINTR looks like to a caller.
    pub transient: bool,
    pub transient_fired: bool,
    pub flush_pending_64: u32,
    pub writes: u64,
    pub flushes: u64,
    pub failed: bool,
    pub writes_after_failure: u64,
    pub cap: usize,
}
impl ScriptWriter {
    pub fn new(accept: Pieces) -> Self {
        ScriptWriter {
            out: Vec::new(),
            accept,
            piece_idx: 0,
            pending_64: 0,
            fail_at: None,
            transient: false,
            transient_fired: false,
            flush_pending_64: 0,
            writes: 0,
            flushes: 0,
            failed: false,
            writes_after_failure: 0,
            cap: usize::MAX,
        }
    }
}
impl AsyncWrite for ScriptWriter {
    fn poll_write(mut self: Pin<&mut Self>, cx: &mut Context<'_>, buf: &[u8]) -> Poll<io::Result<usize>> {
        if buf.is_empty() {
            return Poll::Ready(Ok(0));
        }
        if self.failed {
            self.writes_after_failure += 1;
            let kind = self.fail_at.map(|f| f.1).unwrap_or(io::ErrorKind::BrokenPipe);
            return Poll::Ready(Err(io::Error::new(kind, "write after failure")));
        }
        if self.pending_64 > 0 && with(|w| w.tape.ratio(self.pending_64, 64)) {
            cx.waker().wake_by_ref();
            return Poll::Pending;
        }
        self.writes += 1;
        let mut lim = buf.len();
        if let Some((at, kind)) = self.fail_at {
            if self.transient {
                if !self.transient_fired {
                    if self.out.len() >= at {
                        self.transient_fired = true;
                        with(|w| w.count("fault.writer_error_transient"));
                        return Poll::Ready(Err(io::Error::new(kind, "simulated transient write error")));
                    }
                    lim = lim.min(at - self.out.len());
                }
            } else {
                if self.out.len() >= at {
                    self.failed = true;
                    with(|w| w.count("fault.writer_error"));
                    return Poll::Ready(Err(io::Error::new(kind, "simulated write error")));
                }
                lim = lim.min(at - self.out.len());
            }
        }
        let want = match &self.accept {
            Pieces::Whole => lim,
            Pieces::List(v) => {
                let n = if v.is_empty() { lim } else { v[self.piece_idx % v.len()].max(1) };
                self.piece_idx += 1;
                n
            }
            Pieces::Random(max) => {
                let m = (*max).min(lim).max(1);
                1 + with(|w| w.tape.below(m as u32)) as usize
            }
        };
        let n = want.min(lim);
        self.out.extend_from_slice(&buf[..n]);
        Poll::Ready(Ok(n))
    }
    /// writev semantics: a prefix of the concatenated slices is accepted, possibly ending
    /// inside a later slice (a sink with only `poll_write` would hide vectored-write bugs).
    fn poll_write_vectored(self: Pin<&mut Self>, cx: &mut Context<'_>, bufs: &[io::IoSlice<'_>]) -> Poll<io::Result<usize>> {
        let joined: Vec<u8> = bufs.iter().flat_map(|b| b.iter().copied()).collect();
        with(|w| w.count("sink.vectored_write"));
        self.poll_write(cx, &joined)
    }
    fn poll_flush(mut self: Pin<&mut Self>, cx: &mut Context<'_>) -> Poll<io::Result<()>> {
        if self.flush_pending_64 > 0 && with(|w| w.tape.ratio(self.flush_pending_64, 64)) {
            cx.waker().wake_by_ref();
            return Poll::Pending;
        }
        self.flushes += 1;
        Poll::Ready(Ok(()))
    }
    fn poll_close(self: Pin<&mut Self>, _cx: &mut Context<'_>) -> Poll<io::Result<()>> {
        Poll::Ready(Ok(()))
    }
}
