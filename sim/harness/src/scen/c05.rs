//! C05 - connection protocol-state contract holds for every sequence of API calls.
//!
//! The reference model below is written from the doc comments of `HttpConn` and the
//! property statement. Cells the documentation leaves open are marked `Free`.

use crate::engine::stream::CountWake;
use crate::gen;
use crate::oracle::http::{parse_transcript, End};
use crate::run::{Outcome, RunCfg, Scenario};
use crate::spec::{components_server, PropertySpec};
use crate::util::RunDir;
use serde_json::json;
use servlin::internal::{HttpError, ReadState, WriteState};
use servlin::{HttpConn, RequestBody, Response};
use sim_core::with;
use std::future::Future;
use std::net::{IpAddr, Ipv4Addr, SocketAddr};
use std::panic::{catch_unwind, AssertUnwindSafe};
use std::sync::atomic::{AtomicU64, Ordering};
use std::sync::Arc;
use std::task::{Context, Poll, Waker};

// ------------------------------------------------------------------ client scripts

#[derive(Clone, Debug, PartialEq, Eq)]
enum Decl {
    NoBody,
    Known(usize),
    Unknown,
    Chunked,
    Gzip,
}

#[derive(Clone, Debug)]
struct Msg {
    head: Vec<u8>,
    path: &'static str,
    decl: Decl,
    expect: bool,
    /// body bytes actually sent after the head (may be fewer than declared)
    body: Vec<u8>,
    /// what parsing this head must give (None = Ok)
    head_err: Option<HttpError>,
    /// the request carries `connection: close`. The library ignores it today; honouring it
    /// on the FINAL response (close header + write side shut) would be as right - on an
    /// interim response never.
    close_req: bool,
}

fn msg(head: &str, path: &'static str, decl: Decl, expect: bool, body: &[u8]) -> Msg {
    Msg { head: head.as_bytes().to_vec(), path, decl, expect, body: body.to_vec(), head_err: None, close_req: false }
}

fn big_body() -> Vec<u8> {
    sim_core::tape::content(77, 20_000)
}

fn scripts() -> Vec<(&'static str, Vec<Msg>)> {
    let get = msg("GET /a HTTP/1.1\r\n\r\n", "/a", Decl::NoBody, false, b"");
    let post5 = msg("POST /b HTTP/1.1\r\ncontent-length: 5\r\n\r\n", "/b", Decl::Known(5), false, b"hello");
    let expect5 = msg("PUT /c HTTP/1.1\r\ncontent-length: 5\r\nexpect: 100-continue\r\n\r\n", "/c", Decl::Known(5), true, b"hello");
    let unknown = msg("POST /d HTTP/1.1\r\n\r\n", "/d", Decl::Unknown, false, b"some bytes until eof");
    let chunked = msg("POST /e HTTP/1.1\r\ntransfer-encoding: chunked\r\n\r\n", "/e", Decl::Chunked, false, b"5\r\nhello\r\n0\r\n\r\n");
    let trunc = msg("POST /f HTTP/1.1\r\ncontent-length: 10\r\n\r\n", "/f", Decl::Known(10), false, b"four");
    let mut garbage = msg("\x00\x01garbage\r\n\r\n", "", Decl::NoBody, false, b"");
    garbage.head_err = Some(HttpError::MalformedRequestLine);
    let gzip = msg("POST /g HTTP/1.1\r\ntransfer-encoding: gzip\r\n\r\n", "/g", Decl::Gzip, false, b"zzzz");
    let big = msg("POST /h HTTP/1.1\r\ncontent-length: 20000\r\n\r\n", "/h", Decl::Known(20_000), false, &big_body());
    let expect_unknown = msg("POST /i HTTP/1.1\r\nexpect: 100-continue\r\n\r\n", "/i", Decl::Unknown, true, b"tail");
    let zero = msg("POST /j HTTP/1.1\r\ncontent-length: 0\r\n\r\n", "/j", Decl::NoBody, false, b"");
    let mut expect_close = msg("PUT /k HTTP/1.1\r\ncontent-length: 5\r\nconnection: close\r\nexpect: 100-continue\r\n\r\n", "/k", Decl::Known(5), true, b"hello");
    expect_close.close_req = true;
    vec![
        ("nothing", vec![]),
        ("bodiless", vec![get.clone()]),
        ("small-known", vec![post5.clone()]),
        ("known+pipelined", vec![post5.clone(), get.clone()]),
        ("expect+body", vec![expect5.clone(), get.clone()]),
        ("unknown-length", vec![unknown]),
        ("chunked", vec![chunked]),
        ("truncated-body", vec![trunc]),
        ("garbage", vec![garbage]),
        ("gzip", vec![gzip]),
        ("bigger-than-buffer", vec![big, get.clone()]),
        ("expect+unknown", vec![expect_unknown]),
        ("two-bodiless", vec![get.clone(), zero, get.clone()]),
        ("expect+connection-close", vec![expect_close, get]),
    ]
}

// ------------------------------------------------------------------ operations

#[derive(Clone, Copy, Debug, PartialEq, Eq)]
enum MaxSel {
    Zero,
    LenMinus1,
    Len,
    Big,
    U64Max,
}

#[derive(Clone, Copy, Debug, PartialEq, Eq)]
enum RespSel {
    Interim102,
    Ok200,
    NotFound404,
    Err500,
    Unwritable,
    Conflicting,
    /// 200 with a file body that is shorter than its declared length: the write fails after the head went out
    ShortFile,
    /// 200 with a file body whose file does not exist: also fails after the head went out
    MissingFile,
}

#[derive(Clone, Copy, Debug, PartialEq, Eq)]
enum OpK {
    ReadRequest,
    BodyToVec,
    BodyToFile(MaxSel),
    Continue,
    Write(RespSel),
    ShutdownWrite,
}

const ALL_OPS: [OpK; 15] = [
    OpK::ReadRequest,
    OpK::BodyToVec,
    OpK::BodyToFile(MaxSel::Zero),
    OpK::BodyToFile(MaxSel::LenMinus1),
    OpK::BodyToFile(MaxSel::Len),
    OpK::BodyToFile(MaxSel::Big),
    OpK::BodyToFile(MaxSel::U64Max),
    OpK::Continue,
    OpK::Write(RespSel::Interim102),
    OpK::Write(RespSel::Ok200),
    OpK::Write(RespSel::NotFound404),
    OpK::Write(RespSel::Err500),
    OpK::Write(RespSel::Unwritable),
    OpK::Write(RespSel::Conflicting),
    OpK::ShutdownWrite,
];

fn make_response(sel: RespSel, dir: &std::path::Path) -> Response {
    match sel {
        RespSel::MissingFile => Response::new(200).with_body(servlin::ResponseBody::File(dir.join("no-such-body.bin"), 10)),
        RespSel::ShortFile => {
            let p = dir.join("short-body.bin");
            std::fs::write(&p, b"four").unwrap();
            Response::new(200).with_body(servlin::ResponseBody::File(p, 10))
        }
        RespSel::Interim102 => Response::new(102),
        RespSel::Ok200 => Response::text(200, "fine"),
        RespSel::NotFound404 => Response::text(404, "nope"),
        RespSel::Err500 => Response::text(500, "oops"),
        RespSel::Unwritable => Response::get_body_and_reprocess(10),
        RespSel::Conflicting => Response::text(200, "x").with_header("Content-Length", 1.into()),
    }
}

fn resp_code_body(sel: RespSel) -> (u16, &'static [u8]) {
    match sel {
        RespSel::Interim102 => (102, b""),
        RespSel::Ok200 => (200, b"fine"),
        RespSel::NotFound404 => (404, b"nope"),
        RespSel::Err500 => (500, b"oops"),
        _ => (0, b""),
    }
}

// ------------------------------------------------------------------ reference model

#[derive(Clone, Debug, PartialEq, Eq)]
enum MRead {
    Head,
    Body { decl: Decl, expect: bool },
    Shutdown,
}
#[derive(Clone, Copy, Debug, PartialEq, Eq)]
enum MWrite {
    None,
    Owed,
    Shutdown,
}

#[derive(Clone, Debug, PartialEq)]
enum Exp {
    OkUnit,
    OkRequest(&'static str),
    OkBody(Vec<u8>),
    Err(HttpError),
    /// Some error (the documentation names no specific kind for an I/O failure).
    AnyErr,
    /// The documentation leaves this cell open: any of these results, and then the
    /// model adopts the implementation's post-state (checked only for wire silence).
    Free,
}

#[derive(Clone, Debug, PartialEq)]
enum Wire {
    Nothing,
    Continue100,
    ContinueThen(Box<Wire>),
    Response(u16, Vec<u8>),
    /// A non-empty proper prefix of a response with this status (the write failed part-way).
    PartialResponse(u16),
}

struct Model {
    read: MRead,
    write: MWrite,
    msgs: Vec<Msg>,
    /// index of the next message to parse
    mi: usize,
    /// the byte stream has been drained to EOF
    at_eof: bool,
    fin_sent: bool,
    /// numeric `max_len` the last BodyToFile used
    last_max: u64,
    /// re-evaluate a body read as if the request carried no Expect (second half of a Free cell)
    ignore_expect: bool,
    /// the last call was a body read that failed part-way: the documentation does not say
    /// whether the read side is then back at `Head` or shut down (the stream is dead either way)
    read_state_open: bool,
    /// the last call wrote the final (non-5xx) response to a request that asked for
    /// `connection: close`: closing the write side with it is accepted, not required
    close_allowed: bool,
    /// the last call wrote a response whose body file does not exist (see `apply`)
    missing_file_open: bool,
}


impl Model {
    fn is_ready(&self) -> bool {
        self.read == MRead::Head && self.write == MWrite::None
    }

    fn cur_body(&self) -> (&Msg, usize) {
        (&self.msgs[self.mi - 1], self.mi - 1)
    }

    /// Everything after message `i`'s head up to FIN (what an until-EOF read sees).
    fn rest_after_head(&self, i: usize) -> Vec<u8> {
        let mut v = self.msgs[i].body.clone();
        for m in &self.msgs[i + 1..] {
            v.extend_from_slice(&m.head);
            v.extend_from_slice(&m.body);
        }
        v
    }

    fn apply(&mut self, op: OpK) -> (Exp, Wire) {
        match op {
            OpK::ReadRequest => {
                match self.write {
                    MWrite::Owed => return (Exp::Err(HttpError::ResponseNotSent), Wire::Nothing),
                    MWrite::Shutdown => return (Exp::Err(HttpError::Disconnected), Wire::Nothing),
                    MWrite::None => {}
                }
                match self.read {
                    MRead::Body { .. } => return (Exp::Err(HttpError::BodyNotRead), Wire::Nothing),
                    MRead::Shutdown => return (Exp::Err(HttpError::Disconnected), Wire::Nothing),
                    MRead::Head => {}
                }
                // a response is owed from the moment a request is being read
                self.write = MWrite::Owed;
                if self.at_eof || self.mi >= self.msgs.len() {
                    self.at_eof = true;
                    return (Exp::Err(HttpError::Disconnected), Wire::Nothing);
                }
                let m = self.msgs[self.mi].clone();
                self.mi += 1;
                if let Some(e) = m.head_err {
                    return (Exp::Err(e), Wire::Nothing);
                }
                self.read = match m.decl {
                    Decl::NoBody => MRead::Head,
                    d => MRead::Body { decl: d, expect: m.expect },
                };
                (Exp::OkRequest(m.path), Wire::Nothing)
            }
            OpK::Continue => match self.write {
                MWrite::None => (Exp::Err(HttpError::ResponseAlreadySent), Wire::Nothing),
                MWrite::Shutdown => (Exp::Err(HttpError::Disconnected), Wire::Nothing),
                MWrite::Owed => (Exp::OkUnit, Wire::Continue100),
            },
            OpK::BodyToVec | OpK::BodyToFile(_) => {
                self.last_max = 0;
                let (decl, expect) = match &self.read {
                    MRead::Head => return (Exp::Err(HttpError::BodyNotAvailable), Wire::Nothing),
                    MRead::Shutdown => return (Exp::Err(HttpError::Disconnected), Wire::Nothing),
                    MRead::Body { decl, expect } => (decl.clone(), *expect),
                };
                if matches!(decl, Decl::Chunked | Decl::Gzip) {
                    return (Exp::Err(HttpError::UnsupportedTransferEncoding), Wire::Nothing);
                }
                let (m, i) = self.cur_body();
                let m = m.clone();
                let declared = match decl {
                    Decl::Known(n) => Some(n),
                    _ => None,
                };
                let max: Option<u64> = match op {
                    OpK::BodyToFile(sel) => {
                        let l = declared.unwrap_or(self.rest_after_head(i).len()) as u64;
                        Some(match sel {
                            MaxSel::Zero => 0,
                            MaxSel::LenMinus1 => l.saturating_sub(1),
                            MaxSel::Len => l,
                            MaxSel::Big => 1 << 40,
                            MaxSel::U64Max => u64::MAX,
                        })
                    }
                    _ => None,
                };
                self.last_max = max.unwrap_or(0);
                if let (Some(n), Some(mx)) = (declared, max) {
                    if n as u64 > mx {
                        // refused before anything is read or sent; the body stays unread
                        return (Exp::Err(HttpError::BodyTooLong), Wire::Nothing);
                    }
                }
                // the interim response goes out automatically, but only while a response is owed
                let wire = if expect && !self.ignore_expect {
                    match self.write {
                        MWrite::Owed => Wire::Continue100,
                        // documentation does not say what reading an Expect body does once the
                        // final response is out or the write side is shut
                        _ => return (Exp::Free, Wire::Nothing),
                    }
                } else {
                    Wire::Nothing
                };
                match declared {
                    Some(n) => {
                        self.read = MRead::Head;
                        if m.body.len() < n {
                            self.at_eof = true;
                            self.read_state_open = true;
                            (Exp::Err(HttpError::Truncated), wire)
                        } else {
                            (Exp::OkBody(m.body[..n].to_vec()), wire)
                        }
                    }
                    None => {
                        self.read = MRead::Shutdown;
                        let all = self.rest_after_head(i);
                        self.at_eof = true;
                        self.mi = self.msgs.len();
                        match max {
                            Some(mx) if all.len() as u64 > mx => (Exp::Err(HttpError::BodyTooLong), wire),
                            _ => (Exp::OkBody(all), wire),
                        }
                    }
                }
            }
            OpK::Write(sel) => {
                match self.write {
                    MWrite::None => return (Exp::Err(HttpError::ResponseAlreadySent), Wire::Nothing),
                    MWrite::Shutdown => return (Exp::Err(HttpError::Disconnected), Wire::Nothing),
                    MWrite::Owed => {}
                }
                match sel {
                    RespSel::Unwritable => (Exp::Err(HttpError::UnwritableResponse), Wire::Nothing),
                    RespSel::Conflicting => (Exp::Err(HttpError::DuplicateContentLengthHeader), Wire::Nothing),
                    RespSel::ShortFile => {
                        // bytes went out, then the body source failed: the write side is shut
                        // down and nothing else may ever be written
                        self.write = MWrite::Shutdown;
                        self.fin_sent = true;
                        (Exp::AnyErr, Wire::PartialResponse(200))
                    }
                    RespSel::MissingFile => {
                        // A file that cannot be opened may be noticed after the head went out
                        // (as above) or before anything is sent - then nothing is on the wire
                        // and the response is still owed. Which one is decided from the wire.
                        self.missing_file_open = true;
                        self.write = MWrite::Shutdown;
                        self.fin_sent = true;
                        (Exp::AnyErr, Wire::PartialResponse(200))
                    }
                    _ => {
                        let (code, body) = resp_code_body(sel);
                        if code / 100 != 1 {
                            self.write = MWrite::None;
                            if code / 100 != 5 && self.mi > 0 && self.msgs[self.mi - 1].close_req {
                                self.close_allowed = true;
                            }
                        }
                        if code / 100 == 5 {
                            self.write = MWrite::Shutdown;
                            self.fin_sent = true;
                        }
                        (Exp::OkUnit, Wire::Response(code, body.to_vec()))
                    }
                }
            }
            OpK::ShutdownWrite => {
                self.write = MWrite::Shutdown;
                self.fin_sent = true;
                (Exp::OkUnit, Wire::Nothing)
            }
        }
    }
}

// ------------------------------------------------------------------ execution

fn addr() -> SocketAddr {
    SocketAddr::new(IpAddr::V4(Ipv4Addr::new(10, 0, 0, 1)), 10000)
}

enum Fed<T> {
    Done(T),
    Stalled,
    Panicked(String),
}

/// Polls `fut`; whenever it waits for the client, lets `feed` deliver more client bytes.
fn drive_fed<T>(fut: impl Future<Output = T>, mut feed: impl FnMut() -> bool) -> Fed<T> {
    let mut fut = Box::pin(fut);
    let cw = Arc::new(CountWake(AtomicU64::new(0)));
    let waker = Waker::from(cw.clone());
    let mut cx = Context::from_waker(&waker);
    let _ = sim_core::take_last_panic();
    for _ in 0..2_000_000u64 {
        sim_core::heartbeat();
        let before = cw.0.load(Ordering::SeqCst);
        match catch_unwind(AssertUnwindSafe(|| fut.as_mut().poll(&mut cx))) {
            Err(_) => {
                std::mem::forget(fut);
                let info = sim_core::take_last_panic();
                return Fed::Panicked(info.map(|i| format!("{} at {}", i.message, i.location)).unwrap_or_default());
            }
            Ok(Poll::Ready(v)) => return Fed::Done(v),
            Ok(Poll::Pending) => {
                if cw.0.load(Ordering::SeqCst) == before && !feed() {
                    return Fed::Stalled;
                }
            }
        }
    }
    Fed::Stalled
}

struct Feeder {
    conn: usize,
    data: Vec<u8>,
    /// offsets in `data` at which the client waits for a 100-continue before going on
    gates: Vec<usize>,
    pos: usize,
    fin_done: bool,
    interleaved: bool,
}
impl Feeder {
    fn feed(&mut self) -> bool {
        if self.pos >= self.data.len() {
            if self.fin_done {
                return false;
            }
            self.fin_done = true;
            with(|w| w.client_shutdown_write(self.conn));
            return true;
        }
        // next stop: a gate or the end
        let mut stop = self.data.len();
        for g in &self.gates {
            if *g > self.pos {
                stop = stop.min(*g);
                break;
            }
            if *g == self.pos {
                // wait for the interim response before sending the body
                let wire: Vec<u8> = with(|w| w.net.conns[self.conn].s2c_log.clone());
                let (rs, _) = parse_transcript(&wire);
                let seen = rs.iter().filter(|r| r.code == 100).count();
                let passed = self.gates.iter().filter(|x| **x < self.pos).count();
                // a final response also releases the client
                if seen <= passed && !rs.iter().any(|r| r.code / 100 != 1) {
                    return false;
                }
            }
        }
        let n = if self.interleaved { 1 + with(|w| w.tape.below((stop - self.pos).min(9000) as u32)) as usize } else { stop - self.pos };
        let wrote = with(|w| w.client_write(self.conn, &self.data[self.pos..self.pos + n]));
        self.pos += wrote;
        wrote > 0
    }
}

fn run_program(script_idx: usize, prog: &[OpK], interleaved: bool, gated: bool) -> Outcome {
    let all = scripts();
    let (sname, msgs) = &all[script_idx % all.len()];
    let dir = RunDir::new("c05");
    with(|w| {
        w.net.knobs.sock_cap = 1 << 20;
        if interleaved {
            w.net.knobs.short_io = true;
            w.net.knobs.spurious_pending_64 = 6;
            w.fs.short_io = true;
        }
    });
    let id = with(|w| {
        let id = w.direct_conn();
        w.net.conns[id].keep_s2c_log = true;
        id
    });
    let mut data = Vec::new();
    let mut gates = Vec::new();
    for m in msgs {
        data.extend_from_slice(&m.head);
        if m.expect && gated {
            gates.push(data.len());
        }
        data.extend_from_slice(&m.body);
    }
    let mut feeder = Feeder { conn: id, data, gates, pos: 0, fin_done: false, interleaved };
    if !interleaved && !gated {
        // the client has pre-written everything and half-closed
        while feeder.feed() {}
    }
    let mut conn = HttpConn::new(addr(), async_net::TcpStream::sim_from_conn(id));
    let mut model = Model { read: MRead::Head, write: MWrite::None, msgs: msgs.clone(), mi: 0, at_eof: false, fin_sent: false, last_max: 0, ignore_expect: false, read_state_open: false, close_allowed: false, missing_file_open: false };
    let mut wire_seen = 0usize;
    let ctx = |i: usize| format!("script '{sname}', program {:?}, at op #{i} {:?}", prog, prog[i]);
    for (i, op) in prog.iter().enumerate() {
        let (exp, wire_exp) = model.apply(*op);
        // execute
        let got: Result<String, String> = {
            macro_rules! run {
                ($fut:expr, $map:expr) => {
                    match drive_fed($fut, || feeder.feed()) {
                        Fed::Done(r) => Ok($map(r)),
                        Fed::Stalled => Err("stalled".to_string()),
                        Fed::Panicked(m) => return Outcome::fail("C05.no_panic", format!("{}: {m}", ctx(i))),
                    }
                };
            }
            match op {
                OpK::ReadRequest => run!(conn.read_request(), |r: Result<servlin::Request, HttpError>| match r {
                    Ok(req) => format!("OkRequest({})", req.url().path()),
                    Err(e) => format!("Err({e:?})"),
                }),
                OpK::Continue => run!(conn.write_http_continue(), |r: Result<(), HttpError>| match r {
                    Ok(()) => "OkUnit".to_string(),
                    Err(e) => format!("Err({e:?})"),
                }),
                OpK::BodyToVec => run!(conn.read_body_to_vec(), |r: Result<RequestBody, HttpError>| render_body(r)),
                OpK::BodyToFile(_) => {
                    let max = model.last_max;
                    run!(conn.read_body_to_file(&dir.path, max), |r: Result<RequestBody, HttpError>| render_body(r))
                }
                OpK::Write(sel) => {
                    let resp = make_response(*sel, &dir.path);
                    run!(conn.write_response(&resp), |r: Result<(), HttpError>| match r {
                        Ok(()) => "OkUnit".to_string(),
                        Err(e) => format!("Err({e:?})"),
                    })
                }
                OpK::ShutdownWrite => {
                    conn.shutdown_write();
                    Ok("OkUnit".to_string())
                }
            }
        };
        let got = match got {
            Ok(g) => g,
            Err(_) => {
                return Outcome::fail(
                    "C05.call_completes",
                    format!("{}: the call waits for client bytes that never come (client gated on 100-continue: {gated}); model expected {exp:?}", ctx(i)),
                )
            }
        };
        let wire_all: Vec<u8> = with(|w| w.net.conns[id].s2c_log.clone());
        let delta = &wire_all[wire_seen..];
        let (exp, wire_exp) = if exp == Exp::Free {
            // The documentation does not say whether a body announced with Expect can still be
            // read once the final response is out. Two readings are accepted: the call is
            // refused (then NOTHING may change: no bytes, same protocol state - the body is
            // still unread), or the body is read without an interim response.
            gen::count("probe.free_cell");
            if got.starts_with("Err(") {
                if got != "Err(ResponseAlreadySent)" && got != "Err(Disconnected)" {
                    return Outcome::fail("C05.call_result", format!("{}: returned {got} for a body read that can no longer send its 100-continue", ctx(i)));
                }
                (Exp::Err(if got == "Err(Disconnected)" { HttpError::Disconnected } else { HttpError::ResponseAlreadySent }), Wire::Nothing)
            } else {
                model.ignore_expect = true;
                let r = model.apply(*op);
                model.ignore_expect = false;
                r
            }
        } else {
            (exp, wire_exp)
        };
        let want = match &exp {
            Exp::OkUnit => "OkUnit".to_string(),
            Exp::OkRequest(p) => format!("OkRequest({p})"),
            Exp::OkBody(b) => format!("OkBody({} bytes, fnv {:016x})", b.len(), sim_core::tape::fnv1a(b)),
            Exp::Err(e) => format!("Err({e:?})"),
            Exp::AnyErr => {
                gen::count("probe.write_failed_part_way");
                if got.starts_with("Err(") { got.clone() } else { "Err(..)".to_string() }
            }
            Exp::Free => unreachable!(),
        };
        if got != want {
            return Outcome::fail("C05.call_result", format!("{}: returned {got}, the documented state prescribes {want}", ctx(i)));
        }
        // wire
        let close_allowed = std::mem::take(&mut model.close_allowed);
        let wire_exp = if std::mem::take(&mut model.missing_file_open) && delta.is_empty() && got.starts_with("Err(") {
            // noticed before the first byte: nothing sent, the response is still owed
            gen::count("probe.missing_file_noticed_before_the_head");
            model.write = MWrite::Owed;
            model.fin_sent = false;
            Wire::Nothing
        } else {
            wire_exp
        };
        if let Some(d) = wire_diff(&wire_exp, delta, close_allowed) {
            let clause = if matches!(exp, Exp::Err(_)) && wire_exp == Wire::Nothing { "C05.misuse_leaves_wire_alone" } else { "C05.wire_bytes" };
            return Outcome::fail(clause, format!("{}: {d}; wire delta: {}", ctx(i), gen::show(delta)));
        }
        wire_seen = wire_all.len();
        // states
        if close_allowed && conn.write_state == WriteState::Shutdown {
            // the final response closed the connection as the request asked: then it must
            // have said so, and the model follows
            let (rs, _) = parse_transcript(delta);
            if !rs.last().map(|r| r.header_all("connection") == vec!["close"]).unwrap_or(false) {
                return Outcome::fail("C05.wire_bytes", format!("{}: the write side was shut after a final response that does not carry `connection: close`", ctx(i)));
            }
            gen::count("probe.close_honoured");
            model.write = MWrite::Shutdown;
            model.fin_sent = true;
        }
        if model.read_state_open {
            model.read_state_open = false;
            if model.read == MRead::Head && conn.read_state == ReadState::Shutdown {
                gen::count("probe.read_shut_after_truncated_body");
                model.read = MRead::Shutdown;
            }
        }
        let rs_ok = match (&model.read, &conn.read_state) {
            (MRead::Head, ReadState::Head) | (MRead::Shutdown, ReadState::Shutdown) => true,
            (MRead::Body { decl, expect }, ReadState::Body { len, expect_continue, chunked, gzip }) => {
                *expect == *expect_continue
                    && match decl {
                        Decl::Known(n) => *len == Some(*n as u64) && !chunked && !gzip,
                        Decl::Unknown => len.is_none() && !chunked && !gzip,
                        Decl::Chunked => *chunked,
                        Decl::Gzip => *gzip,
                        Decl::NoBody => false,
                    }
            }
            _ => false,
        };
        let ws_ok = matches!((model.write, &conn.write_state), (MWrite::None, WriteState::None) | (MWrite::Owed, WriteState::Response) | (MWrite::Shutdown, WriteState::Shutdown));
        if !rs_ok || !ws_ok {
            return Outcome::fail(
                "C05.protocol_state",
                format!("{}: after the call read_state={:?} write_state={:?}, the model says {:?}/{:?}", ctx(i), conn.read_state, conn.write_state, model.read, model.write),
            );
        }
        if conn.is_ready() != model.is_ready() {
            return Outcome::fail("C05.protocol_state", format!("{}: is_ready()={} but the model says {}", ctx(i), conn.is_ready(), model.is_ready()));
        }
        let fin = with(|w| w.net.conns[id].s2c.fin);
        if fin != model.fin_sent {
            return Outcome::fail("C05.write_side_shutdown", format!("{}: write side shut down = {fin}, model says {}", ctx(i), model.fin_sent));
        }
    }
    Outcome { nontrivial: prog.len() >= 2, ..Default::default() }
}

fn render_body(r: Result<RequestBody, HttpError>) -> String {
    match r {
        Ok(b) => {
            let bytes: Result<Vec<u8>, _> = Vec::<u8>::try_from(b);
            match bytes {
                Ok(v) => format!("OkBody({} bytes, fnv {:016x})", v.len(), sim_core::tape::fnv1a(&v)),
                Err(e) => format!("OkBody(unreadable: {e})"),
            }
        }
        Err(e) => format!("Err({e:?})"),
    }
}

fn adopt(model: &mut Model, conn: &HttpConn, _msgs: &[Msg]) {
    model.write = match conn.write_state {
        WriteState::None => MWrite::None,
        WriteState::Response => MWrite::Owed,
        WriteState::Shutdown => MWrite::Shutdown,
    };
    model.read = match &conn.read_state {
        ReadState::Head => MRead::Head,
        ReadState::Shutdown => MRead::Shutdown,
        ReadState::Body { len, expect_continue, chunked, gzip } => MRead::Body {
            decl: if *chunked {
                Decl::Chunked
            } else if *gzip {
                Decl::Gzip
            } else {
                match len {
                    Some(n) => Decl::Known(*n as usize),
                    None => Decl::Unknown,
                }
            },
            expect: *expect_continue,
        },
    };
    if model.read == MRead::Shutdown {
        model.at_eof = true;
        model.mi = model.msgs.len();
    }
}

fn wire_diff(exp: &Wire, delta: &[u8], close_allowed: bool) -> Option<String> {
    match exp {
        Wire::Nothing => {
            if delta.is_empty() {
                None
            } else {
                Some(format!("{} bytes written where none are allowed", delta.len()))
            }
        }
        Wire::Continue100 => {
            let (rs, end) = parse_transcript(delta);
            if end == End::Clean && rs.len() == 1 && rs[0].code == 100 && rs[0].body.is_empty() {
                None
            } else {
                Some("expected exactly one `100 Continue` interim response".to_string())
            }
        }
        Wire::ContinueThen(rest) => {
            let (rs, _) = parse_transcript(delta);
            match rs.first() {
                Some(r) if r.code == 100 => wire_diff(rest, &delta[r.end..], close_allowed),
                _ => Some("expected a `100 Continue` first".to_string()),
            }
        }
        Wire::PartialResponse(code) => {
            let (rs, end) = parse_transcript(delta);
            let start = format!("HTTP/1.1 {code} ");
            if delta.is_empty() || !delta.starts_with(start.as_bytes()) {
                return Some(format!("expected the beginning of a {code} response"));
            }
            if end == End::Clean {
                return Some(format!("a response whose body source is too short was written as {} complete response(s)", rs.len()));
            }
            None
        }
        Wire::Response(code, body) => {
            let (rs, end) = parse_transcript(delta);
            if end != End::Clean || rs.len() != 1 {
                return Some(format!("expected exactly one well-formed response, parsed {} ({end:?})", rs.len()));
            }
            let r = &rs[0];
            if r.code != *code || &r.body != body {
                return Some(format!("response {} with {} body bytes, expected {} with {}", r.code, r.body.len(), code, body.len()));
            }
            let close = r.header_all("connection");
            let has_close = close == vec!["close"];
            let ok = if *code / 100 == 5 { has_close } else if close_allowed { has_close || close.is_empty() } else { close.is_empty() };
            if !ok {
                return Some(format!("connection header {close:?} on a {code} response"));
            }
            None
        }
    }
}

// ------------------------------------------------------------------ scenarios

fn decode_program(mut idx: u64, depth_max: usize) -> (usize, Vec<OpK>) {
    let ns = scripts().len() as u64;
    let script = (idx % ns) as usize;
    idx /= ns;
    // programs of length 1..=depth_max in base 15, shorter first
    let mut len = 1usize;
    let mut block = 15u64;
    while len < depth_max && idx >= block {
        idx -= block;
        block *= 15;
        len += 1;
    }
    let mut prog = Vec::new();
    for _ in 0..len {
        prog.push(ALL_OPS[(idx % 15) as usize]);
        idx /= 15;
    }
    (script, prog)
}

fn enumerated(cfg: &RunCfg) -> Outcome {
    let depth = if cfg.tier == crate::run::Tier::Thorough { 5 } else { 4 };
    let (script, prog) = decode_program(cfg.index, depth);
    let mut o = run_program(script, &prog, false, false);
    o.case_hash = cfg.index;
    if cfg.index == 4321 {
        o.sample = Some(json!({"script": scripts()[script].0, "program": format!("{prog:?}"), "delivery": "pre-written + FIN"}));
    }
    o
}

fn sampled(cfg: &RunCfg) -> Outcome {
    let script = gen::below(scripts().len() as u32) as usize;
    let depth = 1 + gen::below(7) as usize;
    // bias towards sensible prefixes so deep states are reached
    let mut prog = Vec::new();
    for i in 0..depth {
        let op = if i == 0 && gen::ratio(3, 4) {
            OpK::ReadRequest
        } else if gen::ratio(1, 12) {
            OpK::Write(if gen::ratio(1, 2) { RespSel::ShortFile } else { RespSel::MissingFile })
        } else {
            ALL_OPS[gen::below(15) as usize]
        };
        prog.push(op);
    }
    let interleaved = gen::ratio(2, 3);
    let gated = gen::ratio(1, 2);
    let mut o = run_program(script, &prog, interleaved, gated);
    o.case_hash = sim_core::tape::fnv1a(format!("{script}{prog:?}{interleaved}{gated}").as_bytes());
    if interleaved {
        gen::count("probe.interleaved_delivery");
    }
    if gated {
        gen::count("probe.client_waits_for_100");
    }
    if cfg.index < 2 {
        o.sample = Some(json!({"script": scripts()[script].0, "program": format!("{prog:?}"), "interleaved": interleaved, "client_waits_for_100": gated}));
    }
    o
}

pub fn spec() -> PropertySpec {
    let n3 = 14 * (15 + 225 + 3375 + 50_625) as u64;
    let n4 = 14 * (15 + 225 + 3375 + 50_625 + 759_375) as u64;
    PropertySpec {
        id: "C05",
        level: "exploration",
        rule: "HttpConn methods called directly on a connection whose stream is the simulated TcpStream. Enumerated stage: EVERY program of depth <= 4 (quick) / <= 5 (thorough) over 15 operations {read_request, read_body_to_vec, read_body_to_file(max in {0, len-1, len, 2^40, u64::MAX}), write_http_continue, write_response(102 | 200 | 404 | 500 | non-writable kind | conflicting header), shutdown_write} x 14 client scripts {nothing+FIN, bodiless, small known body, known body + pipelined request, Expect+body, unknown-length, chunked, truncated body, garbage, gzip, body larger than the 8 KiB buffer, Expect+unknown length, three pipelined, Expect + Connection: close}, client pre-written + FIN. Sampled stage: programs of depth 1-7 with interleaved delivery (short reads, spurious Pending, bytes fed only when a call waits) and clients that withhold the body until they see 100 Continue; the sampled programs also contain write_response of a file body shorter than its declared length (fails after the head went out: some error, a proper prefix on the wire, write side shut down, everything afterwards refused). Oracle: explicit-state reference model (read state x write state x stream cursor) predicting result, states, is_ready(), write-side shutdown and the bytes on the wire after every call; misuse must leave the wire unchanged. distinct = (script, program, delivery mode).",
        scenarios: vec![
            Scenario { name: "c05.enumerated", property: "C05", func: enumerated, runs_quick: n3, runs_thorough: n4, doc: "all programs up to the depth bound" },
            Scenario { name: "c05.sampled", property: "C05", func: sampled, runs_quick: 1_000_000, runs_thorough: 20_000_000, doc: "deeper programs, interleaved delivery" },
        ],
        required_probes: vec!["probe.interleaved_delivery", "probe.client_waits_for_100", "probe.free_cell", "probe.write_failed_part_way"],
        components: components_server(),
        assumptions: vec![
            "cells the documentation leaves open (reading an Expect body after the final response was sent) are implementation-free: only wire silence on error is required",
            "after a body read that failed part-way (Truncated) the read side may be back at Head or shut down: the stream is at its end either way and the documentation names neither (found by a property-preserving change, benign/C04-2)",
            "a second automatic 100 Continue for the same request (manual write_http_continue followed by a body read) is accepted: interim responses may repeat",
        ],
    }
}
