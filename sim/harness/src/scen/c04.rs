//! C04 - per-connection exchange integrity: one handler run and one response per request.

use super::httpgen::{check_conn, client_for, gen_resp_spec, model_conn, Malf, Req, ReqKind};
use crate::engine::handler::{self, OnPending, OnReady, Plan};
use crate::engine::server::{Engine, Frag, NoExtras, ServerCfg};
use crate::gen;
use crate::run::{Outcome, RunCfg, Scenario, Tier};
use crate::spec::{components_server, PropertySpec};
use crate::util::RunDir;
use serde_json::json;
use sim_core::with;

const CODES: [u16; 12] = [200, 200, 200, 201, 204, 301, 302, 400, 404, 422, 500, 503];

pub fn gen_request(conn: usize, i: usize, s: usize, last: bool, allow_malformed: bool) -> Req {
    let path = format!("/c{conn}r{i}");
    // kind weights: nobody, small, large, unknown(last only), malformed
    let ws = [5, 5, 4, if last { 2 } else { 0 }, if allow_malformed { 1 } else { 0 }];
    let k = gen::weighted(&ws);
    let mut method = gen::pick(&["GET", "M", "POST", "PUT", "DELETE"]).to_string();
    let kind = match k {
        0 => {
            if method == "POST" || method == "PUT" {
                method = "GET".into();
            }
            ReqKind::NoBody
        }
        1 => ReqKind::Known(gen::below(s as u32 + 1) as usize),
        2 => ReqKind::Known(if gen::ratio(1, 10) {
            // around the 8 KiB connection buffer: head + body (+ the next head) straddle it
            7900 + gen::below(400) as usize
        } else {
            s + 1 + gen::below(400) as usize
        }),
        3 => {
            method = gen::pick(&["POST", "PUT"]).to_string();
            ReqKind::Unknown(gen::below(600) as usize)
        }
        _ => ReqKind::Malformed(gen::pick(&Malf::ALL)),
    };
    let len = match kind {
        ReqKind::Known(n) | ReqKind::Unknown(n) => n as u64,
        _ => 0,
    };
    let expect = !matches!(kind, ReqKind::NoBody | ReqKind::Malformed(_) | ReqKind::Known(0)) && gen::ratio(1, 4);
    let on_pending = match gen::weighted(&[6, 3, 2, 2, 1, 1]) {
        0 => OnPending::GetBody(len + u64::from(gen::below(50))),
        1 => OnPending::Respond,
        2 => OnPending::GetBody(len.saturating_sub(1 + u64::from(gen::below(5)))),
        3 => OnPending::RecvBody(if gen::ratio(1, 3) { len.saturating_sub(1) } else { len + 7 }),
        4 => OnPending::Drop,
        _ => OnPending::Panic,
    };
    let on_ready = match gen::weighted(&[12, 1, 1, 1]) {
        0 => OnReady::Respond,
        1 => OnReady::GetBodyAgain(1000),
        2 => OnReady::Drop,
        _ => OnReady::Panic,
    };
    let nh = gen::below(3);
    Req {
        path,
        method,
        kind,
        expect,
        wait100: expect && gen::ratio(1, 2),
        body_seed: gen::seed32(),
        plan: Plan {
            on_pending,
            on_ready,
            resp: gen_resp_spec(&CODES),
        },
        extra_headers: (0..nh).map(|j| (format!("x-req{j}"), format!("w{}", gen::below(50)))).collect(),
        raw_head: None,
        raw_body: None,
        meta: None,
    }
}

fn scenario(cfg: &RunCfg, with_cache: bool, max_reqs: u32, max_clients: u32) -> Outcome {
    let dir = RunDir::new("c04");
    let s = *[8usize, 64, 300, 1000].get(gen::below(4) as usize).unwrap();
    let nclients = 1 + gen::below(max_clients) as usize;
    let max_conns = 1 + gen::below(3) as usize;
    let scfg = ServerCfg {
        max_conns,
        small_body_len: s,
        cache_dir: if with_cache { Some(dir.path.clone()) } else { None },
        with_permit: false,
    };
    // network knobs (swarm)
    with(|w| {
        w.net.knobs.sock_cap = *w.tape.pick(&[64usize, 512, 8192, 262_144]);
        w.net.knobs.short_io = w.tape.ratio(1, 2);
        w.net.knobs.spurious_pending_64 = *w.tape.pick(&[0u32, 0, 4, 16]);
        w.fs.short_io = w.tape.ratio(1, 3);
        w.fs.spurious_pending_64 = *w.tape.pick(&[0u32, 0, 8]);
    });
    let mut eng = match Engine::start(scfg.clone()) {
        Ok(e) => e,
        Err(e) => {
            return Outcome {
                harness_error: Some(e),
                ..Default::default()
            }
        }
    };
    // (virtual time may pass at any step, so a timer a change introduces can fire mid-exchange)
    eng.weights.early_timer_64 = gen::pick(&[0u32, 0, 4]);

    eng.weights.job_finish = *[1u32, 4, 12].get(gen::below(3) as usize).unwrap();
    eng.weights.client_step = *[2u32, 6, 20].get(gen::below(3) as usize).unwrap();
    let mut all_reqs: Vec<Vec<Req>> = Vec::new();
    for c in 0..nclients {
        let n = 1 + gen::below(max_reqs) as usize;
        let mut reqs = Vec::new();
        for i in 0..n {
            reqs.push(gen_request(c, i, s, i + 1 == n, true));
        }
        for r in &reqs {
            handler::set_plan(&r.path, r.plan.clone());
        }
        let pipelined = gen::ratio(1, 2);
        let frag = gen::pick(&[Frag::Whole, Frag::Random, Frag::Random, Frag::Byte]);
        let mut cl = client_for(&reqs, pipelined, frag);
        cl.slow_read = gen::ratio(1, 4);
        eng.add_client(cl);
        all_reqs.push(reqs);
    }
    eng.run(&mut NoExtras);
    if eng.hit_cap {
        return Outcome::fail("C04.terminates", "step cap reached: the exchange never quiesces");
    }
    if let Some(p) = eng.sut_panics().first() {
        return Outcome::fail("C04.no_task_panic", p.clone());
    }
    let calls = handler::calls();
    let mut total_calls = 0;
    let mut pending_bodies = 0;
    for (ci, reqs) in all_reqs.iter().enumerate() {
        let cl = &eng.clients[ci];
        let conn = match cl.conn {
            Some(c) => c,
            None => return Outcome::fail("C04.connect", format!("client {ci} was refused")),
        };
        if !cl.done() {
            return Outcome::fail(
                "C04.progress",
                format!("client {ci} is stuck at script step {} ({:?}) although nothing is runnable", cl.pc, cl.ops.get(cl.pc).map(|o| format!("{o:?}").chars().take(60).collect::<String>())),
            );
        }
        let exp = model_conn(reqs, &scfg);
        let mine: Vec<_> = calls.iter().filter(|c| c.conn == conn).cloned().collect();
        total_calls += mine.len();
        pending_bodies += mine.iter().filter(|c| c.pending).count();
        let at_eof = with(|w| w.client_at_eof(conn));
        if let Some(v) = check_conn("C04", &format!("client {ci}"), &exp, &mine, &cl.received, at_eof) {
            return Outcome {
                violation: Some(v),
                nontrivial: true,
                sample: None,
                case_hash: 0,
                harness_error: None,
            };
        }
    }
    // every handler call belongs to some connection we know
    if calls.len() != total_calls {
        return Outcome::fail("C04.handler_runs", "handler was invoked for a connection no client owns");
    }
    if !dir.list().is_empty() {
        gen::count("probe.cache_dir_not_empty_at_end");
    }
    if pending_bodies > 0 {
        gen::count("probe.pending_body_request");
    }
    if total_calls >= 2 {
        gen::count("probe.multi_request_run");
    }
    let sample = if cfg.index < 2 {
        Some(json!({
            "small_body_len": s, "max_conns": max_conns,
            "connections": all_reqs.iter().map(|rs| rs.iter().map(|r| format!("{} {} {:?} expect={} pending:{:?} ready:{:?} -> {}", r.method, r.path, r.kind, r.expect, r.plan.on_pending, r.plan.on_ready, r.plan.resp.code)).collect::<Vec<_>>()).collect::<Vec<_>>(),
            "handler_runs": total_calls,
        }))
    } else {
        None
    };
    Outcome {
        violation: None,
        nontrivial: total_calls >= 2,
        sample,
        case_hash: 0,
        harness_error: None,
    }
}

/// One long-lived pipelined connection: many requests with padded heads, so that the
/// cumulative byte count passes the connection's 8 KiB buffer several times while the
/// server is always behind the client (reads straddle request boundaries).
fn long_lived(cfg: &RunCfg) -> Outcome {
    let dir = RunDir::new("c04");
    // a large in-memory threshold in some runs, so that bodies of several KiB travel through
    // the connection buffer between padded heads
    let s = gen::pick(&[256usize, 256, 7000]);
    let scfg = ServerCfg { max_conns: 1, small_body_len: s, cache_dir: Some(dir.path.clone()), with_permit: false };
    with(|w| {
        w.net.knobs.sock_cap = *w.tape.pick(&[262_144usize, 16_384, 3000]);
        w.net.knobs.short_io = w.tape.ratio(1, 2);
        w.net.knobs.spurious_pending_64 = *w.tape.pick(&[0u32, 0, 4]);
    });
    let mut eng = match Engine::start(scfg.clone()) {
        Ok(e) => e,
        Err(e) => return Outcome { harness_error: Some(e), ..Default::default() },
    };
    eng.weights.client_step = gen::pick(&[6u32, 20, 40]);
    eng.weights.poll = gen::pick(&[2u32, 8]);
    // (a pending timer - the library has none on this path today - may fire while a client
    // pauses: virtual time can pass at any step)
    eng.weights.early_timer_64 = gen::pick(&[0u32, 0, 4]);
    let n = 12 + gen::below(50) as usize;
    let mut reqs = Vec::new();
    let mut total = 0usize;
    for i in 0..n {
        let mut r = gen_request(0, i, s, false, false);
        // only kinds that keep the connection going
        if !matches!(r.kind, ReqKind::NoBody | ReqKind::Known(_)) {
            r.kind = ReqKind::NoBody;
            r.method = "GET".into();
        }
        if let ReqKind::Known(k) = r.kind {
            if k > s || s > 1000 {
                r.kind = ReqKind::Known(gen::below(s as u32 + 1) as usize);
            }
        }
        r.expect = false;
        r.wait100 = false;
        r.plan.on_ready = OnReady::Respond;
        r.plan.resp.code = gen::pick(&[200u16, 201, 204, 301]);
        r.plan.resp.body_len = gen::below(40) as usize;
        let pad = match gen::below(4) {
            0 => gen::below(60),
            1 => 100 + gen::below(400),
            2 => 800 + gen::below(500),
            _ => 1500 + gen::below(3000),
        } as usize;
        r.extra_headers.push(("x-pad".into(), "p".repeat(pad)));
        total += r.head().len() + r.body().len();
        reqs.push(r);
    }
    for r in &reqs {
        handler::set_plan(&r.path, r.plan.clone());
    }
    let mut cl = client_for(&reqs, gen::ratio(5, 6), gen::pick(&[Frag::Whole, Frag::Random, Frag::Random]));
    cl.slow_read = gen::ratio(1, 5);
    eng.add_client(cl);
    eng.run(&mut NoExtras);
    if eng.hit_cap {
        return Outcome::fail("C04.terminates", "step cap reached: the exchange never quiesces");
    }
    if let Some(p) = eng.sut_panics().first() {
        return Outcome::fail("C04.no_task_panic", p.clone());
    }
    let cl = &eng.clients[0];
    if !cl.done() {
        return Outcome::fail("C04.progress", format!("client is stuck at script step {}", cl.pc));
    }
    let conn = cl.conn.unwrap();
    let exp = model_conn(&reqs, &scfg);
    let calls = handler::calls();
    let at_eof = with(|w| w.client_at_eof(conn));
    if let Some(mut v) = check_conn("C04", "long-lived connection", &exp, &calls, &cl.received, at_eof) {
        v.detail = format!("{} [{} requests, {} request bytes in total]", v.detail, reqs.len(), total);
        return Outcome { violation: Some(v), nontrivial: true, ..Default::default() };
    }
    if total > 8192 {
        gen::count("probe.more_than_buffer_size_on_one_connection");
    }
    if total > 3 * 8192 {
        gen::count("probe.more_than_3x_buffer_size_on_one_connection");
    }
    Outcome {
        nontrivial: true,
        sample: if cfg.index < 1 { Some(json!({"requests": reqs.len(), "request_bytes": total})) } else { None },
        ..Default::default()
    }
}

fn with_cache(cfg: &RunCfg) -> Outcome {
    let (r, c) = if cfg.tier == Tier::Thorough { (12, 3) } else { (8, 3) };
    scenario(cfg, true, r, c)
}
fn no_cache(cfg: &RunCfg) -> Outcome {
    scenario(cfg, false, 6, 2)
}

pub fn spec() -> PropertySpec {
    PropertySpec {
        id: "C04",
        level: "exploration",
        rule: "Each run: 1-3 simulated clients, each sending 1-12 generated requests (no body / small / above-threshold / undeclared length / Expect / malformed) on one connection to the real server (accept loop, token set, connection tasks, blocking-job wrapper) under a seeded scheduler that interleaves task polls, handler start/finish, client sends (whole, byte-wise, random fragments; pipelined or ping-pong) and client reads, with short socket I/O, spurious Pending and small socket buffers. Oracle: per-connection sequential reference model (handler runs, pending flags, body bytes, responses, close point). A run is non-trivial when the handler ran at least twice; distinct = distinct hash of the executed schedule (action kind + participant per step).",
        scenarios: vec![
            Scenario { name: "c04.cache", property: "C04", func: with_cache, runs_quick: 250_000, runs_thorough: 8_000_000, doc: "cache dir configured" },
            Scenario { name: "c04.longlived", property: "C04", func: long_lived, runs_quick: 20_000, runs_thorough: 600_000, doc: "12-60 padded pipelined requests on one connection: cumulative bytes pass the 8 KiB connection buffer several times" },
            Scenario { name: "c04.nocache", property: "C04", func: no_cache, runs_quick: 40_000, runs_thorough: 1_000_000, doc: "no cache dir: large bodies must be refused with 500" },
        ],
        required_probes: vec!["probe.pending_body_request", "probe.multi_request_run", "net.backpressure", "job.panicked", "probe.more_than_3x_buffer_size_on_one_connection"],
        components: components_server(),
        assumptions: vec![
            "handlers affect the server only through their return value (blocking pool unbounded)",
            "TCP model: no reordering/loss inside a connection; closing with unread data does not produce RST",
            "no destructive faults in this property (they belong to C08/C10/C12)",
        ],
    }
}
