//! C13 - graceful shutdown: prompt stop signal, in-flight requests complete.

use super::httpgen::{model_conn, Req, ReqKind};
use crate::engine::handler::{self, OnPending, OnReady, Plan, RespSpec};
use crate::engine::server::{Act, Client, Engine, Extras, Frag, Op, ServerCfg};
use crate::gen;
use crate::oracle::http::{parse_transcript, End};
use crate::run::{Outcome, RunCfg, Scenario, Violation};
use crate::spec::{components_server, PropertySpec};
use crate::util::RunDir;
use serde_json::json;
use sim_core::with;

struct Shutdown {
    revoke_at_step: u64,
    steps: u64,
    late_connects_left: u32,
    late_clients: Vec<usize>,
    /// one of the handlers running at revocation never returns
    stick_a_handler: bool,
    stuck_job: Option<u64>,
}
impl Extras for Shutdown {
    fn enabled(&mut self, eng: &Engine) -> Vec<u32> {
        let mut v = Vec::new();
        if eng.permit.is_some() && self.steps >= self.revoke_at_step {
            v.push(0);
        }
        if eng.stopped_at.is_some() && self.late_connects_left > 0 {
            v.push(1);
        }
        v
    }
    fn step(&mut self, eng: &mut Engine, id: u32) {
        match id {
            0 => {
                if self.stick_a_handler {
                    let running = sim_core::running_jobs();
                    if !running.is_empty() {
                        let j = running[gen::below(running.len() as u32) as usize];
                        eng.stuck_jobs.insert(j);
                        self.stuck_job = Some(j);
                        gen::count("fault.handler_never_returns");
                    }
                }
                eng.revoke()
            }
            _ => {
                self.late_connects_left -= 1;
                let mut c = Client::new(vec![Op::Connect, Op::Send(b"GET /late HTTP/1.1\r\n\r\n".to_vec()), Op::AwaitFinal(1)], Frag::Whole);
                c.port_override = Some(eng.port);
                let i = eng.add_client(c);
                self.late_clients.push(i);
                gen::count("probe.connect_after_stopped");
            }
        }
    }
    fn after_step(&mut self, eng: &mut Engine, _act: Act) -> Option<Violation> {
        self.steps += 1;
        if let Some(s) = eng.stopped_at {
            if eng.revoked_at.is_none() {
                return Some(Violation {
                    clause: "C13.stop_before_revoke".into(),
                    detail: format!("stopped signal delivered at seq {s} although the permit was never revoked"),
                });
            }
            if with(|w| w.net.listeners.contains_key(&eng.port)) {
                return Some(Violation {
                    clause: "C13.listener_released_first".into(),
                    detail: "stopped signal delivered while the listening socket is still bound".into(),
                });
            }
        }
        None
    }
}

fn gen_req(conn: usize, i: usize, s: usize, with_cache: bool) -> Req {
    let path = format!("/c{conn}r{i}");
    let k = gen::weighted(&[5, 4, if with_cache { 2 } else { 0 }]);
    let (method, kind) = match k {
        0 => ("GET", ReqKind::NoBody),
        1 => ("POST", ReqKind::Known(gen::below(s as u32 + 1) as usize)),
        _ => ("PUT", ReqKind::Known(s + 1 + gen::below(300) as usize)),
    };
    let len = match kind {
        ReqKind::Known(n) => n as u64,
        _ => 0,
    };
    let expect = len > 0 && gen::ratio(1, 5);
    Req {
        path,
        method: method.into(),
        kind,
        expect,
        wait100: expect && gen::ratio(1, 2),
        body_seed: gen::seed32(),
        plan: Plan {
            on_pending: OnPending::GetBody(len + 10),
            on_ready: OnReady::Respond,
            resp: RespSpec {
                code: 200,
                body_len: *[0usize, 5, 200, 5000].get(gen::below(4) as usize).unwrap(),
                body_seed: gen::seed32(),
                ctype: 1,
                headers: vec![],
            },
        },
        extra_headers: vec![],
        raw_head: None,
        raw_body: None,
        meta: None,
    }
}

fn scenario(cfg: &RunCfg, saturate: bool) -> Outcome {
    let dir = RunDir::new("c13");
    let s = 64usize;
    let max_conns = 1 + gen::below(3) as usize;
    let with_cache = gen::ratio(1, 2);
    let scfg = ServerCfg {
        max_conns,
        small_body_len: s,
        cache_dir: if with_cache { Some(dir.path.clone()) } else { None },
        with_permit: true,
    };
    with(|w| {
        w.net.knobs.sock_cap = *w.tape.pick(&[128usize, 4096, 262_144]);
        w.net.knobs.short_io = w.tape.ratio(1, 2);
        w.net.knobs.spurious_pending_64 = *w.tape.pick(&[0u32, 0, 8]);
    });
    let mut eng = match Engine::start(scfg.clone()) {
        Ok(e) => e,
        Err(e) => return Outcome { harness_error: Some(e), ..Default::default() },
    };
    eng.weights.extra = 3;
    eng.weights.job_finish = *[1u32, 4, 12].get(gen::below(3) as usize).unwrap();
    // virtual time may pass at any step (not only when everything is idle): a handler can
    // still be running, or a response still be on its way, long after the revocation
    eng.weights.early_timer_64 = gen::pick(&[0u32, 0, 4]);
    // Clients: they never close by themselves (the property says shutdown must work
    // "even when the connection limit is reached").
    let nclients = if saturate { max_conns + gen::below(2) as usize } else { gen::below(max_conns as u32 + 2) as usize };
    let mut all_reqs: Vec<Vec<Req>> = Vec::new();
    for c in 0..nclients {
        let n = if saturate { gen::below(3) as usize } else { gen::below(5) as usize };
        let reqs: Vec<Req> = (0..n).map(|i| gen_req(c, i, s, with_cache)).collect();
        let mut ops = vec![Op::Connect];
        let mut finals = 0;
        for r in &reqs {
            handler::set_plan(&r.path, r.plan.clone());
            if gen::ratio(1, 3) {
                ops.push(Op::Pause(1 + gen::below(12)));
            }
            ops.push(Op::Send(r.head()));
            if r.expect && r.wait100 {
                ops.push(Op::Await100);
            }
            let b = r.body();
            if !b.is_empty() {
                if gen::ratio(1, 3) {
                    ops.push(Op::Pause(1 + gen::below(8)));
                }
                ops.push(Op::Send(b));
            }
            finals += 1;
            if gen::ratio(2, 3) {
                ops.push(Op::AwaitFinal(finals));
            }
        }
        let mut cl = Client::new(ops, gen::pick(&[Frag::Whole, Frag::Random, Frag::Byte]));
        cl.slow_read = gen::ratio(1, 3);
        eng.add_client(cl);
        all_reqs.push(reqs);
    }
    // a client that connects and resets at once - with the slots taken it is reset while it
    // still waits in the listen backlog, and is accepted (as a dead connection) later
    if gen::ratio(1, 4) {
        let mut ops = vec![Op::Connect];
        if gen::ratio(1, 2) {
            ops.push(Op::Pause(gen::below(20)));
        }
        ops.push(Op::Rst);
        eng.add_client(Client::new(ops, Frag::Whole));
        all_reqs.push(Vec::new());
        gen::count("fault.client_reset_in_backlog_or_early");
    }
    // transient accept failures before / around the revocation: the loop must back off and go
    // on (never stop by itself), and the revocation must still be noticed
    if gen::ratio(1, 4) {
        let n = 1 + gen::below(3);
        with(|w| {
            for _ in 0..n {
                let f = match w.tape.below(3) {
                    0 => sim_core::net::AcceptFault::Emfile,
                    1 => sim_core::net::AcceptFault::Aborted,
                    _ => sim_core::net::AcceptFault::Os(*w.tape.pick(&sim_core::net::TRANSIENT_ACCEPT_ERRNOS)),
                };
                w.net.accept_faults.push_back(f);
            }
        });
        gen::count("probe.accept_faults_armed");
    }
    let mut ex = Shutdown {
        revoke_at_step: u64::from(gen::below(if saturate { 120 } else { 250 })),
        steps: 0,
        late_connects_left: gen::below(3),
        late_clients: Vec::new(),
        stick_a_handler: gen::ratio(1, 5),
        stuck_job: None,
    };
    if let Some(v) = eng.run(&mut ex) {
        return Outcome { violation: Some(v), nontrivial: true, ..Default::default() };
    }
    if eng.permit.is_some() {
        // quiescent before the chosen revocation step: revoke now and continue
        ex.revoke_at_step = 0;
        gen::count("probe.revoked_at_quiescence");
        if let Some(v) = eng.run(&mut ex) {
            return Outcome { violation: Some(v), nontrivial: true, ..Default::default() };
        }
    }
    if eng.hit_cap {
        return Outcome::fail("C13.terminates", "step cap reached");
    }
    if let Some(p) = eng.sut_panics().first() {
        return Outcome::fail("C13.no_task_panic", p.clone());
    }
    let revoked_at = eng.revoked_at.unwrap_or(0);
    // probes describing the state at revocation time
    let open_at_end = with(|w| w.net.conns.iter().filter(|c| c.accepted && !c.server_closed).count());
    if open_at_end >= max_conns {
        gen::count("probe.all_slots_held_at_quiescence");
    }
    // Liveness by quiescence: nothing is runnable, nothing in flight, no timer.
    if eng.stopped_at.is_none() {
        let why = if eng.stopped_sender_dropped { "the stopped-signal sender was dropped without sending" } else { "no stopped signal" };
        return Outcome::fail(
            "C13.stopped_signal_delivered",
            format!("permit revoked at seq {revoked_at}, system quiescent, {why}; max_conns={max_conns}, connections still held open by the server={open_at_end}"),
        );
    }
    // Late connects are not served.
    for &i in &ex.late_clients {
        let c = &eng.clients[i];
        if !c.refused && !c.received.is_empty() {
            return Outcome::fail("C13.no_service_after_stop", format!("a connection made after the stopped signal was served: {}", gen::show(&c.received)));
        }
        if let Some(id) = c.conn {
            if with(|w| w.net.conns[id].accepted) {
                return Outcome::fail("C13.no_service_after_stop", "a connection made after the stopped signal was accepted".to_string());
            }
        }
    }
    let calls = handler::calls();
    if calls.iter().any(|c| c.path == "/late") {
        return Outcome::fail("C13.no_service_after_stop", "handler ran for a connection made after the stopped signal".to_string());
    }
    let mut inflight_at_revoke = 0;
    for (ci, reqs) in all_reqs.iter().enumerate() {
        let cl = &eng.clients[ci];
        let conn = match cl.conn {
            Some(c) => c,
            None => continue,
        };
        let exp = model_conn(reqs, &scfg);
        let mine: Vec<_> = calls.iter().filter(|c| c.conn == conn).collect();
        // the connection whose handler never returns gets no answer, whatever the server
        // does; the stopped signal (checked above) must not wait for it
        if ex.stuck_job.is_some() && mine.iter().any(|c| c.job == ex.stuck_job) {
            continue;
        }
        // calls are a prefix of the model's calls
        for (i, c) in mine.iter().enumerate() {
            match exp.calls.get(i) {
                Some(e) if e.path == c.path && e.pending == c.pending => {
                    if let (Some(b), Some(g)) = (&e.body, &c.body) {
                        if b != g {
                            return Outcome::fail("C13.inflight_complete", format!("client {ci}: request {} reached the handler with a wrong body", c.path));
                        }
                    }
                }
                _ => return Outcome::fail("C13.request_order", format!("client {ci}: handler run #{i} was {} pending={}, not what was sent next", c.path, c.pending)),
            }
        }
        // every request that reached its final handler run got a complete response
        let (resps, end) = parse_transcript(&cl.received);
        let finals: Vec<_> = resps.iter().filter(|r| r.code / 100 != 1).collect();
        let ready_runs = mine.iter().filter(|c| !c.pending).count();
        if end != End::Clean {
            return Outcome::fail("C13.inflight_complete", format!("client {ci}: transcript is cut short or malformed ({end:?}) although the client kept reading: {}", gen::show(&cl.received)));
        }
        if finals.len() != ready_runs {
            return Outcome::fail(
                "C13.inflight_complete",
                format!("client {ci}: {ready_runs} requests were handled but {} complete responses arrived", finals.len()),
            );
        }
        // A request is in flight from the moment its handler is first called - for an
        // upload that is the call that asks for the body. Every request whose handler had
        // been called when the permit was revoked must still get its complete response
        // (the clients send their whole bodies and keep reading).
        let started_before: std::collections::BTreeSet<&str> = mine.iter().filter(|c| c.seq < revoked_at).map(|c| c.path.as_str()).collect();
        if finals.len() < started_before.len() {
            return Outcome::fail(
                "C13.inflight_complete",
                format!(
                    "client {ci}: the handler had been called for {} request(s) ({:?}) when the permit was revoked, but only {} complete response(s) arrived: an upload in progress at revocation was abandoned",
                    started_before.len(),
                    started_before,
                    finals.len()
                ),
            );
        }
        for (i, r) in finals.iter().enumerate() {
            let want = &reqs[i].plan.resp;
            if r.code != want.code || r.body != want.body() {
                return Outcome::fail("C13.inflight_complete", format!("client {ci}: response #{i} is not the one the handler returned"));
            }
        }
        // at most one further request after revocation, then closed
        let mut after: Vec<&str> = mine.iter().filter(|c| c.seq > revoked_at).map(|c| c.path.as_str()).collect();
        after.dedup();
        if mine.iter().any(|c| c.seq < revoked_at) && mine.iter().filter(|c| !c.pending && c.seq < revoked_at).count() < mine.iter().filter(|c| c.seq < revoked_at).map(|c| &c.path).collect::<std::collections::BTreeSet<_>>().len() {
            inflight_at_revoke += 1;
        }
        if after.len() > 1 {
            return Outcome::fail("C13.one_more_request", format!("client {ci}: {} further requests were served after revocation: {after:?}", after.len()));
        }
        if !after.is_empty() && !with(|w| w.client_at_eof(conn)) {
            return Outcome::fail("C13.closed_after_one_more", format!("client {ci}: served {} after revocation but the connection is still open at quiescence", after[0]));
        }
        if !after.is_empty() {
            gen::count("probe.request_served_after_revocation");
        }
    }
    if inflight_at_revoke > 0 {
        gen::count("probe.upload_in_progress_at_revocation");
    }
    let sample = if cfg.index < 2 {
        Some(json!({"max_conns": max_conns, "clients": nclients, "revoke_at_step": ex.revoke_at_step, "requests": all_reqs.iter().map(|r| r.len()).collect::<Vec<_>>() }))
    } else {
        None
    };
    Outcome {
        violation: None,
        nontrivial: nclients > 0,
        sample,
        case_hash: 0,
        harness_error: None,
    }
}

/// The process stays out of file descriptors: every accept fails (the pending connection
/// stays in the backlog) and the loop backs off 500 ms of virtual time each time. A
/// revocation must still stop the server within a bounded (virtual) time.
fn accept_failing(cfg: &RunCfg) -> Outcome {
    let max_conns = 1 + gen::below(3) as usize;
    let scfg = ServerCfg { max_conns, small_body_len: 64, cache_dir: None, with_permit: true };
    let mut eng = match Engine::start(scfg) {
        Ok(e) => e,
        Err(e) => return Outcome { harness_error: Some(e), ..Default::default() },
    };
    eng.weights.extra = 3;
    eng.step_cap = 40_000;
    // some served connections first, then the descriptor shortage begins
    let served = gen::below(max_conns as u32 + 1) as usize;
    for c in 0..served {
        let path = format!("/ok{c}");
        handler::set_plan(&path, Plan { on_pending: OnPending::Respond, on_ready: OnReady::Respond, resp: RespSpec { code: 200, body_len: 2, body_seed: 1, ctype: 1, headers: vec![] } });
        let mut ops = vec![Op::Connect, Op::Send(format!("GET {path} HTTP/1.1\r\n\r\n").into_bytes()), Op::AwaitFinal(1)];
        if gen::ratio(1, 2) {
            ops.push(Op::Fin);
        }
        eng.add_client(Client::new(ops, Frag::Whole));
    }
    struct Shortage {
        steps: u64,
        shortage_at: u64,
        revoke_at: u64,
        started: bool,
        revoked_ns: Option<u64>,
        stopped_ns: Option<u64>,
    }
    impl Extras for Shortage {
        fn enabled(&mut self, eng: &Engine) -> Vec<u32> {
            let mut v = Vec::new();
            if !self.started && self.steps >= self.shortage_at {
                v.push(0);
            }
            if self.started && eng.permit.is_some() && self.steps >= self.revoke_at {
                v.push(1);
            }
            v
        }
        fn step(&mut self, eng: &mut Engine, id: u32) {
            if id == 0 {
                self.started = true;
                with(|w| {
                    w.net.accept_always_emfile = true;
                    w.note("descriptor shortage begins: every accept fails with EMFILE");
                });
                // a connection that will sit in the backlog
                eng.add_client(Client::new(vec![Op::Connect, Op::Send(b"GET /waiting HTTP/1.1\r\n\r\n".to_vec())], Frag::Whole));
            } else {
                eng.revoke();
                self.revoked_ns = Some(with(|w| w.now_ns));
                gen::count("probe.revoked_during_accept_failures");
            }
        }
        fn after_step(&mut self, eng: &mut Engine, _act: Act) -> Option<Violation> {
            self.steps += 1;
            if self.stopped_ns.is_none() && eng.stopped_at.is_some() {
                self.stopped_ns = Some(with(|w| w.now_ns));
            }
            None
        }
    }
    let mut ex = Shortage { steps: 0, shortage_at: u64::from(gen::below(60)), revoke_at: u64::from(gen::below(200)), started: false, revoked_ns: None, stopped_ns: None };
    eng.run(&mut ex);
    if !ex.started {
        ex.shortage_at = 0;
        eng.run(&mut ex);
    }
    if eng.permit.is_some() {
        ex.revoke_at = 0;
        eng.run(&mut ex);
    }
    if let Some(p) = eng.sut_panics().first() {
        return Outcome::fail("C13.no_task_panic", p.clone());
    }
    if eng.hit_cap && eng.stopped_at.is_none() {
        return Outcome::fail(
            "C13.stops_within_bounded_time",
            format!("permit revoked while accept keeps failing (EMFILE): after {} further scheduler steps and {:.0} s of virtual time the server still has not stopped", eng.step_cap, (with(|w| w.now_ns) - ex.revoked_ns.unwrap_or(0)) as f64 / 1e9),
        );
    }
    if eng.stopped_at.is_none() {
        return Outcome::fail("C13.stopped_signal_delivered", "permit revoked during a descriptor shortage, system quiescent, no stopped signal".to_string());
    }
    if let (Some(r), Some(s)) = (ex.revoked_ns, ex.stopped_ns) {
        // generous: the back-off between accept attempts is 500 ms
        if s.saturating_sub(r) > 10_000_000_000 {
            return Outcome::fail("C13.stops_within_bounded_time", format!("the stopped signal came {:.1} s (virtual) after the revocation", (s - r) as f64 / 1e9));
        }
    }
    if with(|w| w.net.listeners.contains_key(&eng.port)) {
        return Outcome::fail("C13.listener_released_first", "stopped signal delivered while the listening socket is still bound".to_string());
    }
    Outcome { nontrivial: true, sample: if cfg.index < 1 { Some(json!({"max_conns": max_conns, "served_first": served, "shortage_at_step": ex.shortage_at, "revoke_at_step": ex.revoke_at})) } else { None }, ..Default::default() }
}

fn mixed(cfg: &RunCfg) -> Outcome {
    scenario(cfg, false)
}
fn saturated(cfg: &RunCfg) -> Outcome {
    scenario(cfg, true)
}

pub fn spec() -> PropertySpec {
    PropertySpec {
        id: "C13",
        level: "exploration",
        rule: "Each run: the real server with a revocable permit and max_conns 1-3; 0..max_conns+1 simulated clients in mixed phases (never connected, idle keep-alive, head or body partially sent, handler running, response being read slowly) that never close by themselves; the revocation is one more scheduler action whose earliest step is drawn from the tape, so it lands at every await point of the accept loop and connection tasks; connects after the stopped signal; in a quarter of the runs one more client that connects and resets at once (reset while waiting in the backlog when the slots are taken); in a quarter of the runs 1-3 transient accept failures (EMFILE, ECONNABORTED, ENFILE, ENOBUFS, ENOMEM, EPROTO, ENETDOWN, EHOSTUNREACH, ...) armed from the start - the loop must back off and carry on, never stop by itself; a stage in which every accept fails with EMFILE from some step on (the loop backs off 500 ms of virtual time per attempt) and the revocation must still stop the server within 10 virtual seconds. In a fifth of the runs one of the handlers that are running at the moment of revocation never returns: the listener must still be released and the stopped signal delivered. A request counts as in flight from the first call of its handler (for an upload: the call that asks for the body) and must then receive its complete response. Verdicts by quiescence (nothing runnable, nothing in flight, no timer), never by timeout. Non-trivial = at least one client; distinct = distinct schedule hash.",
        scenarios: vec![
            Scenario { name: "c13.mixed", property: "C13", func: mixed, runs_quick: 400_000, runs_thorough: 10_000_000, doc: "mixed phases" },
            Scenario { name: "c13.accept_failing", property: "C13", func: accept_failing, runs_quick: 60_000, runs_thorough: 1_500_000, doc: "revocation while every accept fails with EMFILE (virtual 500 ms back-off)" },
            Scenario { name: "c13.saturated", property: "C13", func: saturated, runs_quick: 200_000, runs_thorough: 5_000_000, doc: "at least max_conns clients that stay connected: every slot is held when the permit is revoked" },
        ],
        required_probes: vec!["probe.revoked", "probe.all_slots_held_at_quiescence", "probe.connect_after_stopped", "probe.request_served_after_revocation", "probe.revoked_during_accept_failures", "timer.sleep_for", "fault.accept_other_errno", "fault.client_reset_in_backlog_or_early", "fault.handler_never_returns"],
        components: components_server(),
        assumptions: vec![
            "bounded time is judged as 'before quiescence', i.e. without any further external event",
            "handlers affect the server only through their return value",
        ],
    }
}
