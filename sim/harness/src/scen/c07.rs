//! C07 - chunked encoder output decodes to exactly the source for every read pattern.

use crate::engine::stream::{drive, Drive, Pieces, ScriptReader, ScriptWriter, StreamEnd};
use crate::gen;
use crate::oracle::chunked::{decode, ChunkedEnd};
use crate::run::{Outcome, RunCfg, Scenario};
use crate::spec::{components_stream, PropertySpec};
use serde_json::json;
use servlin::internal::{copy_chunked_async, CopyResult};
use sim_core::tape::content;

pub const MAX_PIECE: usize = 65528;

fn outcome_name(r: &CopyResult) -> &'static str {
    match r {
        CopyResult::Ok(_) => "Ok",
        CopyResult::ReaderErr(_) => "ReaderErr",
        CopyResult::WriterErr(_) => "WriterErr",
    }
}

/// Runs the encoder; returns (result, output, piece log) or a violation.
fn run_encoder(reader: &mut ScriptReader, writer: &mut ScriptWriter, cap: u64) -> Result<CopyResult, Outcome> {
    match drive(copy_chunked_async(&mut *reader, &mut *writer), cap) {
        Drive::Done(r, _) => Ok(r),
        Drive::Stalled(p) => Err(Outcome::fail("C07.terminates", format!("encoder returned Pending without a wake-up after {p} polls"))),
        Drive::Cap(p) => Err(Outcome::fail("C07.terminates", format!("encoder did not finish within {p} polls"))),
        Drive::Panicked(m) => Err(Outcome::fail("C07.no_panic", m)),
    }
}

fn check_complete(source: &[u8], pieces: &[usize], out: &[u8]) -> Option<Outcome> {
    let d = decode(out);
    match d.end {
        ChunkedEnd::Complete { consumed } if consumed == out.len() => {}
        ChunkedEnd::Complete { consumed } => return Some(Outcome::fail("C07.single_terminator", format!("{} bytes follow the terminating chunk", out.len() - consumed))),
        ref e => return Some(Outcome::fail("C07.valid_chunked", format!("output does not decode: {e:?}; head of output: {}", gen::show(&out[..out.len().min(40)])))),
    }
    if d.data != source {
        return Some(Outcome::fail("C07.roundtrip", format!("decoded {} bytes differ from the {} source bytes", d.data.len(), source.len())));
    }
    // (how pieces map to chunks is the encoder's business: it may split or coalesce them)
    let _ = pieces;
    if d.chunk_lens.iter().any(|l| *l == 0) {
        return Some(Outcome::fail("C07.no_zero_chunk_before_end", "a zero-length chunk inside the body".to_string()));
    }
    None
}

/// Every piece length once: the size-line encoding incl. leading-zero trimming.
fn sweep(cfg: &RunCfg) -> Outcome {
    let len = (cfg.index as usize % MAX_PIECE) + 1;
    let src = content(len as u32, len);
    let mut r = ScriptReader::new(src.clone(), Pieces::Whole);
    let mut w = ScriptWriter::new(Pieces::Whole);
    let res = match run_encoder(&mut r, &mut w, 100) {
        Ok(r) => r,
        Err(o) => return o,
    };
    if !matches!(res, CopyResult::Ok(_)) {
        return Outcome::fail("C07.result", format!("unexpected {} for a fault-free copy", outcome_name(&res)));
    }
    // (the strict decoder checks that every size line equals the length of the data after it)
    if let Some(o) = check_complete(&src, &[len], &w.out) {
        return o;
    }
    Outcome {
        nontrivial: true,
        case_hash: len as u64,
        sample: if cfg.index == 0xfff7 { Some(json!({"piece_len": len, "size_line": format!("{len:x}")})) } else { None },
        ..Default::default()
    }
}

fn gen_pieces(total: usize) -> Pieces {
    match gen::below(7) {
        0 => Pieces::Whole,
        1 => Pieces::List(vec![1]),
        2 => Pieces::List(vec![MAX_PIECE, 1]),
        3 => {
            // powers of 16 +- 1
            let base = [15usize, 16, 17, 255, 256, 257, 4095, 4096, 4097, 65527, 65528];
            let n = 1 + gen::below(5) as usize;
            Pieces::List((0..n).map(|_| gen::pick(&base)).collect())
        }
        4 => Pieces::Random(16),
        5 => Pieces::Random(4096),
        _ => Pieces::Random(total.max(1).min(MAX_PIECE + 100)),
    }
}

fn gen_len(thorough: bool) -> usize {
    match gen::below(10) {
        0 => 0,
        1 => 1,
        2..=5 => gen::below(2000) as usize,
        6 | 7 => gen::below(70_000) as usize,
        8 => 65528 + gen::below(20) as usize,
        _ => {
            if thorough {
                gen::below(1_048_577) as usize
            } else {
                gen::below(200_000) as usize
            }
        }
    }
}

fn writer_sched() -> ScriptWriter {
    let mut w = ScriptWriter::new(match gen::below(4) {
        0 => Pieces::Whole,
        1 => Pieces::Random(7),
        2 => Pieces::Random(1000),
        _ => Pieces::Random(70_000),
    });
    w.pending_64 = gen::pick(&[0u32, 0, 8, 24]);
    w
}

fn random_streams(cfg: &RunCfg) -> Outcome {
    let mut len = gen_len(cfg.tier == crate::run::Tier::Thorough);
    let pieces = gen_pieces(len);
    // The encoder allocates and zeroes a 64 KiB buffer per piece: keep streams of tiny
    // pieces short so that a run stays in the millisecond range.
    match &pieces {
        Pieces::List(v) if v == &vec![1usize] => len = len.min(3000),
        Pieces::Random(16) => len = len.min(20_000),
        _ => {}
    }
    let src = content(gen::seed32(), len);
    let mut r = ScriptReader::new(src.clone(), pieces);
    r.pending_64 = gen::pick(&[0u32, 0, 8, 24]);
    let mut w = writer_sched();
    let res = match run_encoder(&mut r, &mut w, 10_000_000) {
        Ok(r) => r,
        Err(o) => return o,
    };
    if !matches!(res, CopyResult::Ok(_)) {
        return Outcome::fail("C07.result", format!("unexpected {} for a fault-free copy", outcome_name(&res)));
    }
    if let Some(o) = check_complete(&src, &r.piece_log, &w.out) {
        return o;
    }
    let mut h = len as u64;
    for p in r.piece_log.iter().take(64) {
        h = sim_core::tape::mix(h, *p as u64);
    }
    Outcome {
        nontrivial: r.piece_log.len() >= 2,
        case_hash: h,
        sample: if cfg.index < 2 { Some(json!({"len": len, "pieces": r.piece_log.iter().take(12).collect::<Vec<_>>(), "out_len": w.out.len()})) } else { None },
        ..Default::default()
    }
}

/// Source error after piece k: complete chunks for the first k pieces and no terminator.
fn reader_error(cfg: &RunCfg) -> Outcome {
    let npieces = 1 + gen::below(16) as usize;
    let lens: Vec<usize> = (0..npieces)
        .map(|_| match gen::below(5) {
            0 => 1,
            1 => 16,
            2 => 1 + gen::below(300) as usize,
            3 => 1 + gen::below(5000) as usize,
            _ => MAX_PIECE - gen::below(3) as usize,
        })
        .collect();
    // enumerate the boundary from the run index so that every k in 0..=npieces is hit
    let k = (cfg.index as usize) % (npieces + 1);
    let total: usize = lens.iter().sum();
    let cut: usize = lens[..k].iter().sum();
    let src = content(gen::seed32(), total);
    let mut r = ScriptReader::new(src.clone(), Pieces::List(lens.clone()));
    r.end_at = cut;
    r.end = StreamEnd::Error(gen::read_error_kind());
    r.pending_64 = gen::pick(&[0u32, 8]);
    // the error may be one-shot: a source that fails once and then reports end of data, or
    // goes on with the rest (an event receiver that rejects one oversized event does that);
    // the encoder must stop at the error either way
    let mut eintr_resume: Option<usize> = None;
    if gen::ratio(1, 2) {
        r.errors_left = Some(1);
        r.resume_end_at = if gen::ratio(1, 2) { cut } else { total };
        gen::count("fault.reader_error_one_shot");
        if gen::ratio(1, 4) {
            // EINTR: giving up and a correct retry (which then sees the rest) are both right
            r.end = StreamEnd::Error(std::io::ErrorKind::Interrupted);
            eintr_resume = Some(r.resume_end_at);
        }
    }
    let mut w = writer_sched();
    let res = match run_encoder(&mut r, &mut w, 10_000_000) {
        Ok(r) => r,
        Err(o) => return o,
    };
    sim_core::with(|wd| wd.count("fault.reader_error"));
    if let (Some(upto), CopyResult::Ok(_)) = (eintr_resume, &res) {
        // the encoder retried the interrupted read: then the output must be the complete
        // encoding of everything the source went on to deliver
        let d = decode(&w.out);
        if !matches!(d.end, ChunkedEnd::Complete { .. }) || d.data != src[..upto] {
            return Outcome::fail("C07.roundtrip", format!("the encoder carried on after an Interrupted read at piece {k}, returned Ok, but its output ({:?}, {} bytes) is not the encoding of the {upto} bytes the source delivered", d.end, d.data.len()));
        }
        return Outcome { nontrivial: true, case_hash: sim_core::tape::mix(k as u64, total as u64), ..Default::default() };
    }
    if !matches!(res, CopyResult::ReaderErr(_)) {
        return Outcome::fail("C07.reader_error_reported", format!("source failed after piece {k} of {npieces} but the encoder returned {}", outcome_name(&res)));
    }
    let d = decode(&w.out);
    match d.end {
        ChunkedEnd::CleanCut => {}
        ChunkedEnd::Complete { .. } => {
            return Outcome::fail("C07.no_terminator_on_error", format!("source failed after piece {k} of {npieces} yet the output carries the terminating chunk: a truncated stream looks complete"))
        }
        ref e => return Outcome::fail("C07.valid_chunked", format!("output after a source error is not a sequence of complete chunks: {e:?}")),
    }
    if d.data != src[..cut] {
        return Outcome::fail("C07.roundtrip", format!("after a source error at piece {k} the output holds {} bytes, expected the {cut} bytes of the first {k} pieces", d.data.len()));
    }
    Outcome {
        nontrivial: true,
        case_hash: sim_core::tape::mix(k as u64, total as u64),
        sample: if cfg.index < 1 { Some(json!({"pieces": lens, "error_after_piece": k})) } else { None },
        ..Default::default()
    }
}

/// Writer error at an offset: accepted bytes are a prefix of the fault-free output.
fn writer_error(cfg: &RunCfg) -> Outcome {
    let npieces = 1 + gen::below(6) as usize;
    let lens: Vec<usize> = (0..npieces).map(|_| 1 + gen::below(if gen::ratio(1, 6) { 70_000 } else { 600 }) as usize).collect();
    let total: usize = lens.iter().sum();
    let src = content(gen::seed32(), total);
    // fault-free reference output (metamorphic: same source schedule)
    let mut r0 = ScriptReader::new(src.clone(), Pieces::List(lens.clone()));
    let mut w0 = ScriptWriter::new(Pieces::Whole);
    if let Err(o) = run_encoder(&mut r0, &mut w0, 1_000_000) {
        return o;
    }
    let full = w0.out;
    // chunk boundaries in the output, +-1, or a drawn offset
    let mut bounds = vec![0usize];
    let mut acc = 0usize;
    for l in &r0.piece_log {
        acc += format!("{l:x}").len() + 2;
        bounds.push(acc);
        acc += l + 2;
        bounds.push(acc);
    }
    let at = match gen::below(3) {
        0 => bounds[(cfg.index as usize) % bounds.len()],
        1 => {
            let b = bounds[gen::below(bounds.len() as u32) as usize];
            (b + gen::below(3) as usize).saturating_sub(1)
        }
        _ => gen::below(full.len() as u32 + 1) as usize,
    }
    .min(full.len());
    let mut r = ScriptReader::new(src, Pieces::List(lens.clone()));
    let mut w = writer_sched();
    // EINTR-like transient fault: giving up (WriterErr + prefix) and a correct retry
    // (Ok + the whole output) are both right; resending accepted bytes is not
    w.transient = gen::ratio(1, 8);
    let kind = if w.transient { std::io::ErrorKind::Interrupted } else { gen::write_error_kind() };
    w.fail_at = Some((at, kind));
    let res = match run_encoder(&mut r, &mut w, 10_000_000) {
        Ok(r) => r,
        Err(o) => return o,
    };
    if w.transient {
        let ok = matches!(res, CopyResult::Ok(_));
        if w.out.len() > full.len() || w.out[..] != full[..w.out.len()] || (ok && w.out.len() != full.len()) {
            return Outcome::fail("C07.prefix_on_writer_error", format!("transient (Interrupted) write error at {at}: the encoder returned {} and the accepted bytes are not {} the fault-free output", outcome_name(&res), if ok { "exactly" } else { "a prefix of" }));
        }
        return Outcome { nontrivial: at > 0 && at < full.len(), case_hash: sim_core::tape::mix(at as u64, total as u64), ..Default::default() };
    }
    if at < full.len() {
        if !matches!(res, CopyResult::WriterErr(_)) {
            return Outcome::fail("C07.writer_error_reported", format!("writer failed at offset {at} of {} but the encoder returned {}", full.len(), outcome_name(&res)));
        }
    }
    if w.out.len() > full.len() || w.out[..] != full[..w.out.len()] {
        return Outcome::fail("C07.prefix_on_writer_error", format!("bytes accepted before the write error at {at} are not a prefix of the fault-free output"));
    }
    if w.writes_after_failure > 0 {
        return Outcome::fail("C07.no_write_after_error", format!("{} further writes after the writer reported an error", w.writes_after_failure));
    }
    Outcome {
        nontrivial: at > 0 && at < full.len(),
        case_hash: sim_core::tape::mix(at as u64, total as u64),
        ..Default::default()
    }
}

pub fn spec() -> PropertySpec {
    PropertySpec {
        id: "C07",
        level: "fault_enumeration",
        rule: "copy_chunked_async driven by a scripted source and a scripted sink. (1) sweep: every piece length 1..=65528 once, decoded by the strict decoder, which checks every size line against the data that follows (exhaustive for the size-line encoding). (2) random streams 0..1 MiB under tape-chosen/adversarial piece sequences (all-1, max-then-1, powers of 16 +-1), short writes and spurious Pending; strict independent decoder must recover the source, no zero chunk inside, exactly one terminator. (3) source error after piece k, k enumerated over 0..=#pieces, repeating or one-shot (the source then reports end of data or goes on): complete chunks, no terminator. (4) sink error at every chunk boundary +-1 and at drawn offsets: accepted bytes are a prefix of the fault-free output, no write after the error. distinct = hash(len, piece sequence / fault offset); non-trivial = at least 2 pieces or a fault strictly inside the output. Error kinds are drawn from 15 kinds; one sink fault in eight and a share of the one-shot source errors are TRANSIENT Interrupted errors, for which giving up and a correct retry are both accepted (success then requires exactly the complete encoding).",
        scenarios: vec![
            Scenario { name: "c07.sweep", property: "C07", func: sweep, runs_quick: 65_528, runs_thorough: 65_528, doc: "every piece length" },
            Scenario { name: "c07.random", property: "C07", func: random_streams, runs_quick: 200_000, runs_thorough: 5_000_000, doc: "random streams and schedules" },
            Scenario { name: "c07.reader_error", property: "C07", func: reader_error, runs_quick: 150_000, runs_thorough: 3_000_000, doc: "source error at every chunk boundary" },
            Scenario { name: "c07.writer_error", property: "C07", func: writer_error, runs_quick: 150_000, runs_thorough: 3_000_000, doc: "sink error at boundaries and offsets" },
        ],
        required_probes: vec!["fault.reader_error", "fault.reader_error_one_shot", "fault.writer_error"],
        components: components_stream(),
        assumptions: vec!["the source never returns more than the buffer it is given (AsyncRead contract)", "a 0-byte read means end of stream (AsyncRead contract); the event-stream interaction with that rule is C11's"],
    }
}
