//! C11 - server-sent events: ordered exactly-once delivery; ends only on disconnect.

use crate::engine::handler::{self, OnPending, OnReady, Plan, RespSpec};
use crate::engine::server::{Act, Client, Engine, Extras, Frag, Op, ServerCfg};
use crate::engine::stream::{CountWake, Pieces, ScriptWriter};
use crate::gen;
use crate::oracle::chunked::{decode, ChunkedEnd};
use crate::oracle::sse::{normalise_data, Dispatched, SseParser};
use crate::run::{Outcome, RunCfg, Scenario, Violation};
use crate::spec::{components_server, components_stream, PropertySpec};
use serde_json::json;
use servlin::internal::write_http_response;
use servlin::{Event, EventSender, Response};
use sim_core::with;
use std::future::Future;
use std::panic::{catch_unwind, AssertUnwindSafe};
use std::sync::atomic::{AtomicU64, Ordering};
use std::sync::Arc;
use std::task::{Context, Poll, Waker};

const QUEUE: usize = 50;
const MAX_EVENT_BYTES: usize = 65_528;

struct SharedWriter(std::rc::Rc<std::cell::RefCell<ScriptWriter>>);
impl futures_io::AsyncWrite for SharedWriter {
    fn poll_write(self: std::pin::Pin<&mut Self>, cx: &mut Context<'_>, buf: &[u8]) -> Poll<std::io::Result<usize>> {
        std::pin::Pin::new(&mut *self.0.borrow_mut()).poll_write(cx, buf)
    }
    fn poll_write_vectored(self: std::pin::Pin<&mut Self>, cx: &mut Context<'_>, bufs: &[std::io::IoSlice<'_>]) -> Poll<std::io::Result<usize>> {
        std::pin::Pin::new(&mut *self.0.borrow_mut()).poll_write_vectored(cx, bufs)
    }
    fn poll_flush(self: std::pin::Pin<&mut Self>, cx: &mut Context<'_>) -> Poll<std::io::Result<()>> {
        std::pin::Pin::new(&mut *self.0.borrow_mut()).poll_flush(cx)
    }
    fn poll_close(self: std::pin::Pin<&mut Self>, cx: &mut Context<'_>) -> Poll<std::io::Result<()>> {
        std::pin::Pin::new(&mut *self.0.borrow_mut()).poll_close(cx)
    }
}

fn gen_data(big_ok: bool) -> String {
    let atoms = [
        "a", "b c", " ", ":", "\n", "\r", "\r\n", "data: x", "event: y", "id: 7", "retry: 5", "\u{e9}", "\u{1f600}", "\0", ": c", " lead", "trail ", "\u{feff}", "\n\n", "x\ny",
    ];
    let n = match gen::below(6) {
        0 => 0,
        1 => 1,
        2 | 3 => 1 + gen::below(4),
        _ => 1 + gen::below(10),
    };
    let mut s = String::new();
    for _ in 0..n {
        s.push_str(atoms[gen::below(atoms.len() as u32) as usize]);
    }
    if big_ok && gen::ratio(1, 40) {
        // near (but under) the 64 KiB read limit: "data: " + line + "\n" must fit
        let target = MAX_EVENT_BYTES - 40 - gen::below(20) as usize;
        while s.len() < target {
            s.push('z');
        }
        s.truncate(target);
    }
    s
}

fn gen_event(id: usize, big_ok: bool) -> (Event, Dispatched) {
    // a unique id inside the data makes every delivered block attributable to one send
    let data = format!("#{id} {}", gen_data(big_ok));
    let data = if gen::ratio(1, 12) { gen_data(false) } else { data };
    // encoded block sizes on and around the hex-digit boundaries of the chunk-size line
    // ("data: " + line + LF = len + 7; +-2 covers other terminators)
    let data = if gen::ratio(1, 8) {
        let target = gen::pick(&[16usize, 256, 4096]) + gen::below(5) as usize - 2;
        let mut d = format!("#{id} ");
        while d.len() + 7 < target {
            d.push('p');
        }
        gen::count("probe.block_size_on_digit_boundary");
        d
    } else {
        data
    };
    if gen::ratio(1, 12) {
        // A type with a line break cannot be carried by the `event:` field. The constructor
        // refuses it (then a plain message is sent instead); should it ever accept one, the
        // event goes out and the ordinary oracle decides whether the client still recovers
        // exactly that type and nothing else.
        let ty = gen::pick(&["tick\n", "tick\r\n", "a\rb", "\n", "a\nb", "tick\r", "\r", "a\r\nb"]).to_string();
        gen::count("probe.type_with_line_break_offered");
        if let Ok(ev) = Event::custom(&ty, data.clone()) {
            return (ev, Dispatched { ty, data: normalise_data(&data) });
        }
        return (Event::Message(data.clone()), Dispatched { ty: "message".into(), data: normalise_data(&data) });
    }
    if gen::ratio(1, 3) {
        let ty = gen::pick(&["t", "", "a:b", " lead", "message", "\u{e9}v", "x y", ":c"]).to_string();
        let ev = Event::custom(&ty, data.clone()).expect("type without newlines");
        (ev, Dispatched { ty: if ty.is_empty() { "message".into() } else { ty }, data: normalise_data(&data) })
    } else {
        (Event::Message(data.clone()), Dispatched { ty: "message".into(), data: normalise_data(&data) })
    }
}

/// Approximate number of bytes an event needs on the wire (upper bound used to keep
/// generated events under the read limit outside the dedicated oversize stage).
fn wire_upper_bound(e: &Event) -> usize {
    let (t, d) = match e {
        Event::Message(d) => (0, d),
        Event::Custom(t, d) => (t.len() + 8, d),
    };
    let lines = d.matches('\n').count() + d.matches('\r').count() + 2;
    t + d.len() + lines * 7
}

struct Hand {
    sender: Option<EventSender>,
}

struct Model {
    /// events accepted by the channel, in order
    accepted: Vec<Dispatched>,
    /// number of senders that still hold the channel
    live: usize,
}

enum WriterState {
    Running,
    Done(Result<(), String>),
}

/// Level 1: sender steps interleaved with hand-polling of the response writer.
fn sender_writer(cfg: &RunCfg, oversize_stage: bool, script: Option<Vec<u8>>) -> Outcome {
    let scripted = script.is_some();
    let (first, resp) = Response::event_stream();
    let mut resp = Some(resp);
    let mut hands: Vec<Hand> = vec![Hand { sender: Some(first) }];
    let mut model = Model { accepted: Vec::new(), live: 1 };
    // the writer side
    // In scripted (enumerated) mode the configuration is fixed and only the interleaving varies.
    let mut writer = ScriptWriter::new(if scripted {
        Pieces::Whole
    } else {
        match gen::below(4) {
            0 => Pieces::Whole,
            1 => Pieces::Random(5),
            2 => Pieces::Random(300),
            _ => Pieces::Random(70_000),
        }
    });
    writer.pending_64 = if scripted { 0 } else { gen::pick(&[0u32, 0, 8, 24]) };
    // client disappears after this many accepted bytes (None: stays)
    let client_dies = if !scripted && gen::ratio(1, 5) { Some(60 + gen::below(600) as usize) } else { None };
    // (one in four of these is an EINTR: the sink reports Interrupted once and then works
    // again. The response writer may give up - then the stream is dead as with a vanished
    // client - or retry correctly; what it must not do is resend part of a chunk.)
    let eintr = client_dies.is_some() && gen::ratio(1, 4);
    if let Some(k) = client_dies {
        writer.fail_at = Some((k, if eintr { std::io::ErrorKind::Interrupted } else { gen::write_error_kind() }));
        writer.transient = eintr;
    }
    // stalled client: the writer is simply not polled for a while
    let stall = !scripted && gen::ratio(1, 4);
    let overrun = !scripted && gen::ratio(1, 8);
    let max_steps = match &script {
        Some(sc) => sc.len() as u32,
        None => {
            if overrun {
                130
            } else {
                3 + gen::below(24)
            }
        }
    };

    let cw = Arc::new(CountWake(AtomicU64::new(1)));
    let waker = Waker::from(cw.clone());
    let mut seen_wakes = 0u64;
    let mut wstate = WriterState::Running;
    // The future owns the response (dropping it when the write ends, as the connection
    // task does) and writes through a shared handle so the harness can look at the sink.
    let shared = std::rc::Rc::new(std::cell::RefCell::new(writer));
    let mut sw = SharedWriter(shared.clone());
    let owned_resp = resp.take().unwrap();
    type WFut = std::pin::Pin<Box<dyn Future<Output = Result<(), servlin::internal::HttpError>>>>;
    let mut fut: Option<WFut> = Some(Box::pin(async move {
        let r = write_http_response(&mut sw, &owned_resp, false).await;
        drop(owned_resp);
        r
    }));
    let out_now = || -> Vec<u8> { shared.borrow().out.clone() };

    let mut poll_writer = |fut: &mut Option<WFut>, wstate: &mut WriterState, seen: &mut u64| -> Option<Outcome> {
        if let Some(f) = fut.as_mut() {
            sim_core::heartbeat();
            *seen = cw.0.load(Ordering::SeqCst);
            let mut cx = Context::from_waker(&waker);
            let _ = sim_core::take_last_panic();
            match catch_unwind(AssertUnwindSafe(|| f.as_mut().poll(&mut cx))) {
                Err(_) => {
                    let info = sim_core::take_last_panic();
                    std::mem::forget(fut.take());
                    return Some(Outcome::fail("C11.no_panic", info.map(|i| format!("{} at {}", i.message, i.location)).unwrap_or_default()));
                }
                Ok(Poll::Ready(r)) => {
                    *wstate = WriterState::Done(r.map_err(|e| format!("{e:?}")));
                    *fut = None;
                }
                Ok(Poll::Pending) => {}
            }
        }
        None
    };

    let mut next_id = 0usize;
    let mut trace: Vec<String> = Vec::new();
    let mut receiver_dropped = false;
    let mut spurious_failures = 0;
    for step in 0..max_steps {
        // choose: a sender step or a writer poll
        let writer_woken = cw.0.load(Ordering::SeqCst) != seen_wakes;
        let can_poll = fut.is_some() && writer_woken && !(stall && step < max_steps / 2);
        // scripted step code: 0 = writer poll, 1 + 4*h + a = action a of sender hand h
        let code = script.as_ref().map(|sc| sc[step as usize]);
        if let Some(c) = code {
            if c == 0 && !can_poll {
                continue; // the writer was not woken: a real executor would not poll it
            }
            if c > 0 {
                let h = ((c - 1) / 4) as usize;
                if h >= hands.len() || hands[h].sender.is_none() {
                    continue; // no such sender (any more): this step is a no-op
                }
            }
        }
        let do_poll = match code {
            Some(c) => c == 0,
            None => can_poll && gen::ratio(if overrun { 1 } else { 2 }, 5),
        };
        if do_poll {
            if let Some(o) = poll_writer(&mut fut, &mut wstate, &mut seen_wakes) {
                return o;
            }
            trace.push("poll".into());
            // a failed writer means the client is gone: the server drops the response
            if let WriterState::Done(Err(_)) = &wstate {
                if !receiver_dropped {
                    receiver_dropped = true;
                    trace.push("response dropped (client gone)".into());
                    gen::count("probe.client_gone_senders_alive");
                }
            }
        } else {
            let live: Vec<usize> = (0..hands.len()).filter(|i| hands[*i].sender.is_some()).collect();
            if live.is_empty() {
                break;
            }
            let (h, act) = match code {
                Some(c) => (((c - 1) / 4) as usize, ((c - 1) % 4) as usize),
                None => (live[gen::below(live.len() as u32) as usize], if overrun { 0 } else { gen::weighted(&[10, 2, 1, 1, 2]) }),
            };
            match act {
                0 => {
                    let (ev, want) = loop {
                        let (ev, want) = gen_event(next_id, true);
                        if oversize_stage || wire_upper_bound(&ev) <= MAX_EVENT_BYTES {
                            break (ev, want);
                        }
                    };
                    next_id += 1;
                    let s = hands[h].sender.as_mut().unwrap();
                    let was = s.is_connected();
                    s.send(ev.clone());
                    let is = s.is_connected();
                    trace.push(format!("send[{h}] {:?} -> connected {was}->{is}", format!("{ev:?}").chars().take(50).collect::<String>()));
                    if was && is {
                        model.accepted.push(want);
                    } else if was && !is {
                        model.live -= 1;
                        // a send may fail only if the queue could be full or the receiver is gone
                        let out = out_now();
                        let chunks_out = body_chunks(&out).map(|c| c.len()).unwrap_or(0);
                        let upper_occupancy = model.accepted.len().saturating_sub(chunks_out);
                        if !receiver_dropped && upper_occupancy < QUEUE {
                            spurious_failures += 1;
                            return Outcome::fail(
                                "C11.send_fails_only_on_overrun_or_disconnect",
                                format!("send made the sender disconnected although at most {upper_occupancy} of {QUEUE} queue slots can be in use and the client is alive; steps: {trace:?}"),
                            );
                        }
                        gen::count(if receiver_dropped { "probe.sender_outlived_client" } else { "probe.queue_overrun" });
                    }
                }
                1 => {
                    let c = hands[h].sender.as_ref().unwrap().clone();
                    if c.is_connected() {
                        model.live += 1;
                    }
                    hands.push(Hand { sender: Some(c) });
                    trace.push(format!("clone[{h}]"));
                }
                2 => {
                    let s = hands[h].sender.as_mut().unwrap();
                    if s.is_connected() {
                        model.live -= 1;
                    }
                    s.disconnect();
                    if s.is_connected() {
                        return Outcome::fail("C11.disconnect", "is_connected() after disconnect()".to_string());
                    }
                    trace.push(format!("disconnect[{h}]"));
                }
                3 => {
                    let s = hands[h].sender.take().unwrap();
                    if s.is_connected() {
                        model.live -= 1;
                    }
                    drop(s);
                    trace.push(format!("drop[{h}]"));
                }
                _ => {
                    let _ = hands[h].sender.as_ref().unwrap().is_connected();
                }
            }
        }
        // the terminating chunk may appear only when every sender is gone
        if model.live > 0 {
            let out = out_now();
            if out.ends_with(b"0\r\n\r\n") && matches!(wstate, WriterState::Done(Ok(()))) {
                return Outcome::fail(
                    "C11.terminates_only_when_all_senders_gone",
                    format!("the response was terminated while {} sender(s) still report connected; steps: {trace:?}", model.live),
                );
            }
        }
    }
    // end of run: every sender goes away, then the writer runs to completion
    for h in hands.iter_mut() {
        h.sender.take();
    }
    model.live = 0;
    let mut guard = 0;
    while fut.is_some() {
        guard += 1;
        if cw.0.load(Ordering::SeqCst) == seen_wakes {
            return Outcome::fail(
                "C11.delivery_progress",
                format!("all senders are gone but the response writer was never woken: the stream would hang forever; steps: {trace:?}"),
            );
        }
        if guard > 2_000_000 {
            return Outcome::fail("C11.delivery_progress", "writer does not finish".to_string());
        }
        if let Some(o) = poll_writer(&mut fut, &mut wstate, &mut seen_wakes) {
            return o;
        }
    }
    let out = out_now();
    let _ = spurious_failures;
    // ---- judge the client's bytes
    let client_alive = if eintr {
        // the client is there all along; the stream is only "dead" if the writer gave up at the EINTR
        !(shared.borrow().transient_fired && matches!(wstate, WriterState::Done(Err(_))))
    } else {
        client_dies.is_none() || !shared.borrow().failed
    };
    let head_end = match out.windows(4).position(|w| w == b"\r\n\r\n") {
        Some(p) => p + 4,
        None => {
            if client_alive {
                return Outcome::fail("C11.wellformed", format!("no response head in {}", gen::show(&out)));
            }
            return Outcome { nontrivial: true, ..Default::default() };
        }
    };
    {
        let (rs, _) = crate::oracle::http::parse_transcript(&out);
        let ok = rs.first().map(|r| r.code == 200 && r.header("content-type").map(|v| v.starts_with("text/event-stream")).unwrap_or(false) && r.framing == crate::oracle::http::Framing::Chunked).unwrap_or(false);
        if !ok {
            return Outcome::fail("C11.wellformed", format!("unexpected response head {:?}", String::from_utf8_lossy(&out[..head_end])));
        }
    }
    let d = decode(&out[head_end..]);
    let mut chunks: Vec<&[u8]> = Vec::new();
    let mut off = 0;
    for l in &d.chunk_lens {
        chunks.push(&d.data[off..off + l]);
        off += l;
    }
    match (&d.end, client_alive, &wstate) {
        (ChunkedEnd::Invalid(e), _, _) => return Outcome::fail("C11.wellformed", format!("chunked body invalid: {e}")),
        (ChunkedEnd::Complete { consumed }, true, WriterState::Done(Ok(()))) if head_end + consumed == out.len() => {}
        (_, true, WriterState::Done(Err(e))) => {
            // the stream died although the client is alive
            let big = model.accepted.iter().any(|e| e.data.len() + e.ty.len() + 30 > MAX_EVENT_BYTES / 2);
            return Outcome::fail(
                if big { "C11.event_larger_than_buffer" } else { "C11.stream_survives" },
                format!("the response writer failed with {e} although the client is alive and reading; {} events accepted, {} chunks sent", model.accepted.len(), chunks.len()),
            );
        }
        (end, true, _) => return Outcome::fail("C11.terminating_chunk", format!("all senders are gone, the client is alive, but the stream ends with {end:?}")),
        (_, false, _) => {}
    }
    // conformant parse (needs the blank line) vs chunk-delimited parse
    let mut strict = SseParser::default();
    strict.feed_stream(&d.data);
    let mut blocks = SseParser::default();
    let complete_chunks = if matches!(d.end, ChunkedEnd::MidChunk) && chunks.len() > d.chunk_lens.len() { chunks.len() - 1 } else { chunks.len() };
    for c in chunks.iter().take(complete_chunks) {
        blocks.feed_chunk(c);
    }
    if blocks.id_fields > 0 || blocks.retry_fields > 0 || !blocks.unknown_fields.is_empty() {
        return Outcome::fail(
            "C11.no_field_injection",
            format!("the client parses fields no send supplied (id x{}, retry x{}, unknown {:?}): event content altered the stream structure; steps: {trace:?}", blocks.id_fields, blocks.retry_fields, blocks.unknown_fields.iter().map(|f| short(f)).collect::<Vec<_>>()),
        );
    }
    let got = &blocks.events;
    let want = &model.accepted;
    let n = if client_alive { want.len() } else { got.len().min(want.len()) };
    if client_alive && got.len() != want.len() {
        let first_diff = got.iter().zip(want.iter()).position(|(a, b)| a != b);
        return Outcome::fail(
            "C11.exactly_once_in_order",
            format!("{} events were accepted, the client dispatches {} (first difference at {first_diff:?}); steps: {trace:?}", want.len(), got.len()),
        );
    }
    if !client_alive && got.len() > want.len() {
        return Outcome::fail("C11.exactly_once_in_order", format!("client dispatched {} events, only {} were accepted", got.len(), want.len()));
    }
    for i in 0..n {
        if got[i] != want[i] {
            let clause = if got[i].ty != want[i].ty { "C11.event_type_recovered" } else { "C11.event_data_recovered" };
            return Outcome::fail(clause, format!("event #{i}: sent type {:?} data {:?}, the client recovers type {:?} data {:?}", want[i].ty, short(&want[i].data), got[i].ty, short(&got[i].data)));
        }
    }
    // The conformant parser only dispatches blocks ended by a blank line.
    if client_alive && !want.is_empty() && strict.events.len() != want.len() {
        return Outcome::fail(
            "C11.block_terminated_by_blank_line",
            format!("an EventSource-conformant parser dispatches {} of {} events: blocks are not ended by a blank line", strict.events.len(), want.len()),
        );
    }
    if want.len() >= 2 {
        gen::count("probe.two_or_more_events_delivered");
    }
    if hands.len() >= 2 {
        gen::count("probe.several_senders");
    }
    Outcome {
        nontrivial: !want.is_empty(),
        case_hash: sim_core::tape::fnv1a(format!("{trace:?}").as_bytes()),
        sample: if cfg.index < 2 { Some(json!({"steps": trace.iter().take(12).collect::<Vec<_>>(), "accepted": want.len(), "delivered": got.len(), "client_alive": client_alive})) } else { None },
        ..Default::default()
    }
}

fn short(s: &str) -> String {
    s.chars().take(60).collect()
}

fn body_chunks(out: &[u8]) -> Option<Vec<usize>> {
    let p = out.windows(4).position(|w| w == b"\r\n\r\n")? + 4;
    Some(decode(&out[p..]).chunk_lens)
}

fn l1(cfg: &RunCfg) -> Outcome {
    sender_writer(cfg, false, None)
}
fn l1_oversize(cfg: &RunCfg) -> Outcome {
    sender_writer(cfg, true, None)
}

/// EVERY interleaving of up to `depth` steps over {writer poll} + {send, clone,
/// disconnect, drop} x up to 3 sender hands, decoded from the run index (base 13, shorter
/// sequences first). Event contents still come from the tape.
fn interleavings(cfg: &RunCfg) -> Outcome {
    let depth = if cfg.tier == crate::run::Tier::Thorough { 7 } else { 5 };
    let mut idx = cfg.index;
    let mut len = 1usize;
    let mut block = 13u64;
    while len < depth && idx >= block {
        idx -= block;
        block *= 13;
        len += 1;
    }
    let mut script = Vec::new();
    for _ in 0..len {
        script.push((idx % 13) as u8);
        idx /= 13;
    }
    let mut o = sender_writer(cfg, false, Some(script));
    o.case_hash = cfg.index;
    o
}

// ---------------------------------------------------------------------------- server level

struct Senders {
    steps: u64,
    accepted: Vec<Dispatched>,
    next_id: usize,
    budget: u32,
    done: bool,
}
impl Extras for Senders {
    fn enabled(&mut self, _eng: &Engine) -> Vec<u32> {
        let have = handler::HANDLER.with(|h| !h.borrow().senders.is_empty());
        if have && !self.done {
            vec![0]
        } else {
            vec![]
        }
    }
    fn step(&mut self, _eng: &mut Engine, _id: u32) {
        if self.budget == 0 {
            // all senders go away
            handler::HANDLER.with(|h| h.borrow_mut().senders.clear());
            self.done = true;
            return;
        }
        self.budget -= 1;
        let (ev, want) = loop {
            let (ev, want) = gen_event(self.next_id, false);
            if wire_upper_bound(&ev) <= MAX_EVENT_BYTES {
                break (ev, want);
            }
        };
        self.next_id += 1;
        handler::HANDLER.with(|h| {
            let mut h = h.borrow_mut();
            let n = h.senders.len();
            let (_, s) = &mut h.senders[self.steps as usize % n];
            let was = s.is_connected();
            s.send(ev);
            if was && s.is_connected() {
                self.accepted.push(want);
            }
        });
    }
    fn after_step(&mut self, _eng: &mut Engine, _act: Act) -> Option<Violation> {
        self.steps += 1;
        None
    }
}

fn server_level(cfg: &RunCfg) -> Outcome {
    let scfg = ServerCfg { max_conns: 2, small_body_len: 64, cache_dir: None, with_permit: false };
    with(|w| {
        w.net.knobs.sock_cap = *w.tape.pick(&[64usize, 600, 262_144]);
        w.net.knobs.short_io = w.tape.ratio(1, 2);
        w.net.knobs.spurious_pending_64 = *w.tape.pick(&[0u32, 8]);
    });
    let mut eng = match Engine::start(scfg) {
        Ok(e) => e,
        Err(e) => return Outcome { harness_error: Some(e), ..Default::default() },
    };
    eng.weights.extra = gen::pick(&[2u32, 8, 20]);
    handler::set_plan("/events", Plan { on_pending: OnPending::Respond, on_ready: OnReady::EventStream, resp: RespSpec::simple(200) });
    let dies = gen::ratio(1, 4);
    let mut ops = vec![Op::Connect, Op::Send(b"GET /events HTTP/1.1\r\n\r\n".to_vec())];
    if dies {
        ops.push(Op::AwaitBytes(80 + gen::below(400) as usize));
        ops.push(Op::Rst);
    } else if gen::ratio(1, 3) {
        // half-closes its sending side right after the request and keeps reading: it is
        // still there, and the stream must go on until the senders are gone
        ops.push(Op::Fin);
        ops.push(Op::AwaitFinal(1));
        gen::count("probe.client_half_closed_and_keeps_reading");
    } else {
        ops.push(Op::AwaitFinal(1));
        ops.push(Op::Fin);
    }
    let mut cl = Client::new(ops, Frag::Whole);
    cl.slow_read = gen::ratio(1, 2);
    cl.keep_server_log = true;
    eng.add_client(cl);
    let mut ex = Senders { steps: 0, accepted: Vec::new(), next_id: 0, budget: 1 + gen::below(if gen::ratio(1, 6) { 80 } else { 12 }), done: false };
    eng.run(&mut ex);
    // make sure every sender is gone at the end
    handler::HANDLER.with(|h| h.borrow_mut().senders.clear());
    eng.run(&mut ex);
    if eng.hit_cap {
        return Outcome::fail("C11.terminates", "never quiesces");
    }
    if let Some(p) = eng.sut_panics().first() {
        return Outcome::fail("C11.no_task_panic", p.clone());
    }
    let c = &eng.clients[0];
    let conn = c.conn.unwrap();
    let rx = &c.received;
    let reset = with(|w| w.client_saw_reset(conn));
    let head_end = match rx.windows(4).position(|w| w == b"\r\n\r\n") {
        Some(p) => p + 4,
        None => {
            if reset {
                return Outcome { nontrivial: false, ..Default::default() };
            }
            return Outcome::fail("C11.wellformed", format!("no response head: {}", gen::show(rx)));
        }
    };
    let d = decode(&rx[head_end..]);
    if let ChunkedEnd::Invalid(e) = &d.end {
        return Outcome::fail("C11.wellformed", format!("chunked body invalid: {e}"));
    }
    let mut chunks: Vec<&[u8]> = Vec::new();
    let mut off = 0;
    for l in &d.chunk_lens {
        chunks.push(&d.data[off..off + l]);
        off += l;
    }
    let mut blocks = SseParser::default();
    for ch in &chunks {
        blocks.feed_chunk(ch);
    }
    if blocks.id_fields > 0 || blocks.retry_fields > 0 || !blocks.unknown_fields.is_empty() {
        return Outcome::fail("C11.no_field_injection", "the client parses fields no send supplied".to_string());
    }
    let got = &blocks.events;
    let want = &ex.accepted;
    if !reset {
        if !matches!(d.end, ChunkedEnd::Complete { .. }) {
            return Outcome::fail("C11.terminating_chunk", format!("all senders are gone and the client kept reading, but the stream ends with {:?}", d.end));
        }
        if got.len() != want.len() {
            return Outcome::fail("C11.exactly_once_in_order", format!("{} events accepted, {} dispatched by the client", want.len(), got.len()));
        }
        // (a client that was going to reset after k bytes but never received that many
        // just sits there: it has not half-closed, so the connection legitimately stays open)
        if !dies && !with(|w| w.client_at_eof(conn)) {
            return Outcome::fail("C11.connection_ends", format!("stream terminated but the connection stays open although the client half-closed; client pc={} of {:?}, received {}", c.pc, c.ops.iter().map(|o| format!("{o:?}").chars().take(20).collect::<String>()).collect::<Vec<_>>(), gen::show(rx)));
        }
    } else if got.len() > want.len() {
        return Outcome::fail("C11.exactly_once_in_order", format!("client dispatched {} events, only {} were accepted", got.len(), want.len()));
    }
    for i in 0..got.len().min(want.len()) {
        if got[i] != want[i] {
            return Outcome::fail("C11.event_data_recovered", format!("event #{i}: sent {:?}/{:?}, recovered {:?}/{:?}", want[i].ty, short(&want[i].data), got[i].ty, short(&got[i].data)));
        }
    }
    if reset {
        gen::count("probe.client_reset_during_stream");
    }
    if with(|w| w.counters.get("net.backpressure").copied().unwrap_or(0)) > 0 && !want.is_empty() {
        gen::count("probe.slow_client_backpressure");
    }
    Outcome { nontrivial: !want.is_empty(), sample: if cfg.index < 1 { Some(json!({"accepted": want.len(), "delivered": got.len(), "client_reset": reset})) } else { None }, ..Default::default() }
}

/// A long, busy stream: 300-700 events, the queue topped up before every poll of the writer
/// so that it is never empty, the sink yielding after every write. Every accepted event
/// must come out exactly once, in order - however many the writer has handled in a row.
fn sustained(_cfg: &RunCfg) -> Outcome {
    let (mut sender, resp) = Response::event_stream();
    let mut writer = ScriptWriter::new(Pieces::Whole);
    writer.pending_64 = gen::pick(&[32u32, 48]);
    let shared = std::rc::Rc::new(std::cell::RefCell::new(writer));
    let mut sw = SharedWriter(shared.clone());
    let mut fut: std::pin::Pin<Box<dyn Future<Output = Result<(), servlin::internal::HttpError>>>> = Box::pin(async move {
        let r = write_http_response(&mut sw, &resp, false).await;
        drop(resp);
        r
    });
    let cw = Arc::new(CountWake(AtomicU64::new(1)));
    let waker = Waker::from(cw.clone());
    let total = 300 + gen::below(401) as usize;
    let mut accepted: Vec<String> = Vec::new();
    let mut next = 0usize;
    let mut result: Option<Result<(), String>> = None;
    let mut polls = 0u64;
    let mut delivered_chunks_seen = 0usize;
    while result.is_none() {
        polls += 1;
        if polls > 2_000_000 {
            return Outcome::fail("C11.delivery_progress", "the response writer does not finish".to_string());
        }
        sim_core::heartbeat();
        // top up: keep between 1 and ~8 events ahead of what has been written out
        let written = shared.borrow().out.windows(6).filter(|w| w == b"data: ").count();
        delivered_chunks_seen = written;
        while next < total && next < written + 1 + gen::below(8) as usize {
            if !sender.is_connected() {
                return Outcome::fail("C11.stream_survives", format!("the sender became disconnected after {next} events although the client is reading and the queue was never more than 9 deep"));
            }
            let data = format!("#{next} {}", "s".repeat(gen::below(40) as usize));
            sender.send(Event::Message(data.clone()));
            if sender.is_connected() {
                accepted.push(data);
            }
            next += 1;
        }
        if next >= total && sender.is_connected() {
            sender.disconnect();
        }
        let mut cx = Context::from_waker(&waker);
        match catch_unwind(AssertUnwindSafe(|| fut.as_mut().poll(&mut cx))) {
            Err(_) => {
                let info = sim_core::take_last_panic();
                std::mem::forget(fut);
                return Outcome::fail("C11.no_panic", info.map(|i| format!("{} at {}", i.message, i.location)).unwrap_or_default());
            }
            Ok(Poll::Ready(r)) => result = Some(r.map_err(|e| format!("{e:?}"))),
            Ok(Poll::Pending) => {}
        }
    }
    let _ = delivered_chunks_seen;
    if let Some(Err(e)) = &result {
        return Outcome::fail("C11.stream_survives", format!("the response writer failed with {e} on a healthy sink after {} accepted events", accepted.len()));
    }
    let out = shared.borrow().out.clone();
    let head_end = match out.windows(4).position(|w| w == b"\r\n\r\n") {
        Some(p) => p + 4,
        None => return Outcome::fail("C11.wellformed", "no response head".to_string()),
    };
    let d = decode(&out[head_end..]);
    if !matches!(d.end, ChunkedEnd::Complete { .. }) {
        return Outcome::fail("C11.terminating_chunk", format!("all senders are gone, the client read everything, but the stream ends with {:?}", d.end));
    }
    let mut blocks = SseParser::default();
    let mut off = 0;
    for l in &d.chunk_lens {
        blocks.feed_chunk(&d.data[off..off + l]);
        off += l;
    }
    let got: Vec<&str> = blocks.events.iter().map(|e| e.data.as_str()).collect();
    if got.len() != accepted.len() || got.iter().zip(accepted.iter()).any(|(a, b)| a != b) {
        let first = got.iter().zip(accepted.iter()).position(|(a, b)| a != b);
        return Outcome::fail(
            "C11.exactly_once_in_order",
            format!("{} events were accepted over a busy stream, the client dispatches {} (first difference at {:?}: got {:?}, expected {:?})", accepted.len(), got.len(), first, first.map(|i| got[i]), first.map(|i| accepted[i].as_str())),
        );
    }
    gen::count("probe.sustained_stream_over_256_events");
    Outcome { nontrivial: true, case_hash: sim_core::tape::mix(total as u64, polls), ..Default::default() }
}

pub fn spec() -> PropertySpec {
    let mut comp = components_stream();
    comp["server_level"] = components_server();
    PropertySpec {
        id: "C11",
        level: "exploration",
        rule: "Level 1: Response::event_stream() with the real channel (safina::sync::sync_channel(50)), EventSender, EventReceiver, write_http_response and copy_chunked_async; the response writer future is polled by hand between sender steps, and ONLY when its waker fired (a lost wake-up is a verdict). An enumerated stage runs EVERY interleaving of up to 5 (quick) / 7 (thorough) steps over {writer poll, send, clone, disconnect, drop} for up to 3 senders; the sampled stage draws interleavings of {send(e_i), clone, disconnect, drop, is_connected, writer poll} for 1-4+ senders, 3-26 steps (130 to overrun the queue), with a sink that takes 1..n bytes per call, returns Pending, stalls for half the run, or fails after k bytes (client gone; the response is then dropped as the server does). Event contents over empty, multi-line with LF / CRLF / lone CR, trailing newline, leading space/colon, data:/event:/id:/retry: look-alikes, NUL, BOM, non-ASCII, custom types incl. empty / with colon / leading space / (offered to the constructor) with LF, CRLF or a lone CR inside or at the end, sizes just under the 65528-byte read limit, encoded block sizes of 16 / 256 / 4096 +-2 bytes (digit boundaries of the chunk-size line); each event carries a unique id. Oracle: independent chunked decoder + independent WHATWG event-stream parser; accepted events (sender connected before and after send) must equal dispatched events in order, exactly once, with type and LF-normalised data recovered; no id/retry/unknown field may appear; a send may fail only if the queue can be full or the client is gone; terminating chunk iff all senders gone. Level 2: same through the full simulated server with sender actors, slow clients (back-pressure) and client RST. distinct = hash of the step trace. A quarter of the failing-sink runs use a transient Interrupted error instead of a vanished client: the writer may give up (stream dead) or retry, but never resend part of a chunk.",
        scenarios: vec![
            Scenario { name: "c11.sender_writer", property: "C11", func: l1, runs_quick: 600_000, runs_thorough: 15_000_000, doc: "level 1" },
            Scenario { name: "c11.interleavings", property: "C11", func: interleavings, runs_quick: 13 + 169 + 2197 + 28_561 + 371_293, runs_thorough: 13 + 169 + 2197 + 28_561 + 371_293 + 4_826_809 + 62_748_517, doc: "EVERY interleaving of up to 5 (quick) / 7 (thorough) steps over writer poll and {send, clone, disconnect, drop} of up to 3 senders" },
            Scenario { name: "c11.oversize", property: "C11", func: l1_oversize, runs_quick: 60_000, runs_thorough: 1_000_000, doc: "events may exceed the 65528-byte read buffer" },
            Scenario { name: "c11.sustained", property: "C11", func: sustained, runs_quick: 3_000, runs_thorough: 100_000, doc: "300-700 events over one busy stream whose queue is never empty" },
            Scenario { name: "c11.server", property: "C11", func: server_level, runs_quick: 120_000, runs_thorough: 3_000_000, doc: "level 2" },
        ],
        required_probes: vec!["probe.two_or_more_events_delivered", "probe.several_senders", "probe.queue_overrun", "probe.sender_outlived_client", "probe.client_reset_during_stream", "probe.slow_client_backpressure", "probe.block_size_on_digit_boundary", "probe.type_with_line_break_offered", "probe.client_half_closed_and_keeps_reading", "probe.sustained_stream_over_256_events"],
        components: comp,
        assumptions: vec![
            "sender threads are replaced by actors whose steps are atomic: EventSender::send is one non-blocking channel operation",
            "an empty custom type is equivalent to 'message' (the format cannot express an empty type)",
            "data is compared modulo the line-terminator normalisation the format imposes (CRLF / CR -> LF)",
        ],
    }
}
