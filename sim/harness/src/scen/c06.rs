//! C06 - responses serialise to well-formed HTTP/1.1 that parses back to what was set.

use crate::engine::stream::{drive, Drive, Pieces, ScriptWriter};
use crate::gen;
use crate::oracle::http::{parse_transcript, End, Framing};
use crate::run::{Outcome, RunCfg, Scenario, Tier};
use crate::spec::{components_stream, PropertySpec};
use crate::util::RunDir;
use serde_json::json;
use servlin::internal::{write_http_response, HttpError};
use servlin::{ContentType, Event, Response, ResponseBody};
use sim_core::tape::content;
use std::sync::OnceLock;

#[derive(Clone, Debug)]
pub enum BodySpec {
    StaticStr(usize),
    StaticBytes(usize),
    Vec(usize, u32),
    File(usize, u32),
    TempFile(usize, u32),
    Events(Vec<(Option<String>, String)>),
}

/// What is on disk for a file body of recorded length `n`: in a share of the runs the file
/// has grown since its length was recorded (a log being appended to); the response must
/// still carry exactly the first `n` bytes.
fn file_content(seed: u32, n: usize) -> Vec<u8> {
    let mut data = content(seed, n);
    if gen::ratio(1, 4) {
        data.extend_from_slice(b"GROWN-AFTER-THE-LENGTH-WAS-RECORDED");
        gen::count("probe.file_longer_than_declared");
    }
    data
}

#[derive(Clone, Debug)]
pub struct RSpec {
    pub code: u16,
    pub ctype: usize,
    pub headers: Vec<(String, String)>,
    pub close: bool,
    pub body: BodySpec,
}

const STATIC_STRS: [&str; 4] = ["", "a", "hello world", "line1\r\nline2\r\n\r\nHTTP/1.1 200 OK\r\n\r\n"];
fn static_bytes(i: usize) -> &'static [u8] {
    static BIG: OnceLock<Vec<Vec<u8>>> = OnceLock::new();
    let v = BIG.get_or_init(|| vec![Vec::new(), vec![0u8], content(7, 255), content(8, 65_536), content(9, 65_537)]);
    &v[i % v.len()]
}

/// (variant, the exact field value the crate documents for it); index 0 is "no type".
fn ctype_table(i: usize) -> (ContentType, Option<String>) {
    let t: Vec<(ContentType, &str)> = vec![
        (ContentType::None, ""),
        (ContentType::Css, "text/css; charset=UTF-8"),
        (ContentType::Csv, "text/csv; charset=UTF-8"),
        (ContentType::EventStream, "text/event-stream"),
        (ContentType::FormUrlEncoded, "application/x-www-form-urlencoded; charset=UTF-8"),
        (ContentType::Gif, "image/gif"),
        (ContentType::Html, "text/html; charset=UTF-8"),
        (ContentType::JavaScript, "text/javascript; charset=UTF-8"),
        (ContentType::Jpeg, "image/jpeg"),
        (ContentType::Json, "application/json; charset=UTF-8"),
        (ContentType::Markdown, "text/markdown; charset=UTF-8"),
        (ContentType::MultipartForm, "multipart/form-data"),
        (ContentType::OctetStream, "application/octet-stream"),
        (ContentType::Pdf, "application/pdf"),
        (ContentType::PlainText, "text/plain; charset=UTF-8"),
        (ContentType::Png, "image/png"),
        (ContentType::Svg, "image/svg+xml; charset=UTF-8"),
        (ContentType::Str("application/x-custom"), "application/x-custom"),
        (ContentType::String("text/x-owned; q=1".to_string()), "text/x-owned; q=1"),
    ];
    let (ct, s) = t[i % t.len()].clone();
    (ct, if i % t.len() == 0 { None } else { Some(s.to_string()) })
}
const N_CTYPES: u32 = 19;

const TCHARS: &[u8] = b"!#$%&'*+-.^_`|~0123456789abcdefghijklmnopqrstuvwxyzABCDEFGHIJKLMNOPQRSTUVWXYZ";

fn gen_name() -> String {
    // colliding names, once in a while
    match gen::below(12) {
        0 => gen::pick(&["content-type", "Content-Type", "CONTENT-TYPE"]).to_string(),
        1 => gen::pick(&["content-length", "Content-Length", "cOnTeNt-LeNgTh"]).to_string(),
        2 => gen::pick(&["transfer-encoding", "Transfer-Encoding"]).to_string(),
        3 => gen::pick(&["set-cookie", "x-a", "x-a", "X-A"]).to_string(),
        _ => {
            let n = 1 + gen::below(12);
            (0..n).map(|_| TCHARS[gen::below(TCHARS.len() as u32) as usize] as char).collect()
        }
    }
}

fn gen_value() -> String {
    let n = gen::below(24);
    let mut s: String = (0..n)
        .map(|_| match gen::below(20) {
            0 => '\t',
            1 => ' ',
            2 => ':',
            _ => (0x21 + gen::below(0x7e - 0x21 + 1)) as u8 as char,
        })
        .collect();
    // no leading/trailing whitespace: any HTTP parser strips it
    s = s.trim_matches(|c| c == ' ' || c == '\t').to_string();
    s
}

fn gen_events() -> Vec<(Option<String>, String)> {
    let n = gen::below(6);
    (0..n)
        .map(|i| {
            let ty = if gen::ratio(1, 3) { Some(format!("type{i}")) } else { None };
            // sizes with 1, 2, 3 and 4 hex digits in one stream (a size line must not depend on the previous chunk)
            // (30000 / 40000: two or three such events queued together exceed one 65528-byte chunk)
            let pad = gen::pick(&[0usize, 0, 0, 12, 250, 300, 4090, 5000, 30_000, 40_000]);
            let data = if pad == 0 && gen::ratio(1, 3) { format!("{i}") } else { format!("event-{i}-{}{}", gen::below(1000), "x".repeat(pad)) };
            (ty, data)
        })
        .collect()
}

fn gen_small_body() -> BodySpec {
    let len = |g: u32| match g {
        0 => 0usize,
        1 => 1,
        2 => gen::below(64) as usize,
        _ => gen::below(5000) as usize,
    };
    match gen::below(7) {
        0 => BodySpec::StaticStr(gen::below(4) as usize),
        1 => BodySpec::StaticBytes(gen::below(3) as usize),
        2 | 3 => BodySpec::Vec(len(gen::below(4)), gen::seed32()),
        4 => BodySpec::File(len(gen::below(4)), gen::seed32()),
        5 => BodySpec::TempFile(len(gen::below(4)), gen::seed32()),
        _ => BodySpec::Events(gen_events()),
    }
}

pub fn gen_rspec(large: bool) -> RSpec {
    let code = match gen::below(4) {
        0 => gen::pick(&[100u16, 101, 200, 204, 304, 404, 500, 599, 999]),
        _ => 100 + gen::below(900) as u16,
    };
    let nh = match gen::below(4) {
        0 => 0,
        1 => 1,
        2 => gen::below(5),
        _ => gen::below(21),
    };
    let mut headers: Vec<(String, String)> = (0..nh).map(|_| (gen_name(), gen_value())).collect();
    // sometimes the same framing field twice
    if gen::ratio(1, 16) {
        let n = gen::pick(&["content-type", "content-length", "transfer-encoding"]).to_string();
        headers.push((n.clone(), gen_value()));
        headers.push((n, gen_value()));
    }
    let body = if large {
        let len = gen::pick(&[65_535usize, 65_536, 65_537, 200_000, 1_048_577, 3_145_728]);
        match gen::below(4) {
            0 => BodySpec::StaticBytes(3 + gen::below(2) as usize),
            1 => BodySpec::Vec(len, gen::seed32()),
            2 => BodySpec::File(len, gen::seed32()),
            _ => BodySpec::TempFile(len, gen::seed32()),
        }
    } else {
        gen_small_body()
    };
    RSpec {
        code,
        ctype: if gen::ratio(1, 3) { 0 } else { gen::below(N_CTYPES) as usize },
        headers,
        close: gen::ratio(1, 3),
        body,
    }
}

pub fn expected_body(b: &BodySpec) -> Vec<u8> {
    match b {
        BodySpec::StaticStr(i) => STATIC_STRS[*i % 4].as_bytes().to_vec(),
        BodySpec::StaticBytes(i) => static_bytes(*i).to_vec(),
        BodySpec::Vec(n, s) | BodySpec::File(n, s) | BodySpec::TempFile(n, s) => content(*s, *n),
        BodySpec::Events(evs) => {
            let mut out = Vec::new();
            for (ty, data) in evs {
                if let Some(t) = ty {
                    out.extend_from_slice(format!("event: {t}\n").as_bytes());
                }
                out.extend_from_slice(format!("data: {data}\n").as_bytes());
            }
            out
        }
    }
}

/// Builds the real `Response` for a spec. File-backed bodies are created in `dir`.
pub fn build(spec: &RSpec, dir: &RunDir, tag: &str) -> Response {
    let (ct, _) = ctype_table(spec.ctype);
    let mut r = Response::new(spec.code).with_type(ct);
    for (n, v) in &spec.headers {
        r = r.with_header(n, v.clone().try_into().unwrap());
    }
    let body: ResponseBody = match &spec.body {
        BodySpec::StaticStr(i) => ResponseBody::StaticStr(STATIC_STRS[*i % 4]),
        BodySpec::StaticBytes(i) => ResponseBody::StaticBytes(static_bytes(*i)),
        BodySpec::Vec(n, s) => ResponseBody::Vec(content(*s, *n)),
        BodySpec::File(n, s) => {
            let p = dir.path.join(format!("body-{tag}"));
            std::fs::write(&p, file_content(*s, *n)).unwrap();
            ResponseBody::File(p, *n as u64)
        }
        BodySpec::TempFile(n, s) => {
            let tf = temp_file::TempFile::in_dir(&dir.path).unwrap();
            std::fs::write(tf.path(), file_content(*s, *n)).unwrap();
            ResponseBody::TempFile(tf, *n as u64)
        }
        BodySpec::Events(evs) => {
            let (mut sender, resp) = Response::event_stream();
            for (ty, data) in evs {
                match ty {
                    Some(t) => sender.send(Event::custom(t, data.clone()).unwrap()),
                    None => sender.send(Event::Message(data.clone())),
                }
            }
            drop(sender);
            return Response { code: spec.code, content_type: r.content_type, headers: r.headers, ..resp };
        }
    };
    r.with_body(body)
}

fn has(headers: &[(String, String)], name: &str) -> bool {
    headers.iter().any(|(n, _)| n.eq_ignore_ascii_case(name))
}

pub fn writer_sched() -> ScriptWriter {
    let mut w = ScriptWriter::new(match gen::below(5) {
        0 => Pieces::Whole,
        1 => Pieces::List(vec![1]),
        2 => Pieces::Random(5),
        3 => Pieces::Random(200),
        _ => Pieces::Random(100_000),
    });
    w.pending_64 = gen::pick(&[0u32, 0, 6, 20]);
    w.flush_pending_64 = gen::pick(&[0u32, 16]);
    w
}

pub fn serialise(spec: &RSpec, dir: &RunDir, tag: &str, w: &mut ScriptWriter) -> Result<Result<(), HttpError>, Outcome> {
    let resp = build(spec, dir, tag);
    match drive(write_http_response(&mut *w, &resp, spec.close), 50_000_000) {
        Drive::Done(r, _) => Ok(r),
        Drive::Stalled(p) => Err(Outcome::fail("C06.terminates", format!("serialiser returned Pending without a wake-up after {p} polls"))),
        Drive::Cap(p) => Err(Outcome::fail("C06.terminates", format!("serialiser did not finish within {p} polls"))),
        Drive::Panicked(m) => Err(Outcome::fail("C06.no_panic", m)),
    }
}

fn scenario(cfg: &RunCfg, large: bool) -> Outcome {
    let dir = RunDir::new("c06");
    let spec = gen_rspec(large);
    sim_core::with(|w| {
        w.fs.short_io = w.tape.ratio(1, 2);
        w.fs.spurious_pending_64 = *w.tape.pick(&[0u32, 0, 10]);
    });
    let unknown_len = matches!(spec.body, BodySpec::Events(_));
    let (_, ctype_value) = ctype_table(spec.ctype);
    let dup_ct = ctype_value.is_some() && has(&spec.headers, "content-type");
    let user_cl = has(&spec.headers, "content-length");
    let user_te = has(&spec.headers, "transfer-encoding");
    let must_refuse = dup_ct || user_cl || user_te;
    let mut w = if large { ScriptWriter::new(gen::pick(&[Pieces::Whole, Pieces::Random(100_000), Pieces::Random(3000)])) } else { writer_sched() };
    // one EINTR in a share of the small runs: the sink reports Interrupted once, after a
    // drawn number of accepted bytes, and then goes on. A serialiser may give up (the run
    // then says nothing) or retry; if it reports success the output must be right.
    let eintr = !large && !must_refuse && gen::ratio(1, 10);
    if eintr {
        w.fail_at = Some((gen::below(120) as usize, std::io::ErrorKind::Interrupted));
        w.transient = true;
    }
    let res = match serialise(&spec, &dir, "a", &mut w) {
        Ok(r) => r,
        Err(o) => return o,
    };
    if eintr && w.transient_fired {
        gen::count("probe.eintr_during_write");
        if res.is_err() {
            return Outcome { nontrivial: false, ..Default::default() };
        }
    }
    let case_hash = sim_core::tape::fnv1a(format!("{spec:?}").as_bytes());
    if must_refuse {
        gen::count("probe.must_refuse");
        match res {
            Err(HttpError::DuplicateContentTypeHeader) | Err(HttpError::DuplicateContentLengthHeader) | Err(HttpError::DuplicateTransferEncodingHeader) => {
                // the specific error for the plain duplicate cases
                let want = if dup_ct && !user_cl && !user_te {
                    Some(HttpError::DuplicateContentTypeHeader)
                } else if dup_ct {
                    None
                } else if user_cl && !unknown_len && !user_te {
                    Some(HttpError::DuplicateContentLengthHeader)
                } else if user_te && unknown_len && !user_cl {
                    Some(HttpError::DuplicateTransferEncodingHeader)
                } else {
                    None
                };
                if let (Some(wnt), Err(got)) = (want, &res) {
                    if &wnt != got {
                        return Outcome::fail("C06.duplicate_error_kind", format!("refused with {got:?}, expected {wnt:?}; fields {:?}", spec.headers));
                    }
                }
                if !w.out.is_empty() {
                    return Outcome::fail("C06.refused_before_any_byte", format!("{} bytes were written before the refusal", w.out.len()));
                }
                return Outcome { nontrivial: true, case_hash, ..Default::default() };
            }
            other => {
                let which = if dup_ct { "content-type" } else if user_cl { "content-length" } else { "transfer-encoding" };
                let twice = spec.headers.iter().filter(|(n, _)| n.eq_ignore_ascii_case(which)).count();
                return Outcome::fail(
                    "C06.duplicate_refused",
                    format!(
                        "application set `{which}` {twice}x (body length {}), which collides with the field the serialiser adds or makes the framing ambiguous; result {other:?}, wrote {} bytes: {}",
                        if unknown_len { "unknown" } else { "known" },
                        w.out.len(),
                        gen::show(&w.out[..w.out.len().min(200)])
                    ),
                );
            }
        }
    }
    if let Err(e) = res {
        return Outcome::fail("C06.serialises", format!("unexpected error {e:?} for {spec:?}"));
    }
    let (resps, end) = parse_transcript(&w.out);
    if end != End::Clean || resps.len() != 1 {
        return Outcome::fail("C06.wellformed", format!("output is not exactly one well-formed response: {} parsed, {end:?}; head: {}", resps.len(), gen::show(&w.out[..w.out.len().min(300)])));
    }
    let r = &resps[0];
    if r.code != spec.code {
        return Outcome::fail("C06.status", format!("status {} parsed, {} set", r.code, spec.code));
    }
    let want_body = expected_body(&spec.body);
    if r.body != want_body {
        return Outcome::fail("C06.body", format!("body of {} bytes parsed, {} bytes set (first difference at {:?})", r.body.len(), want_body.len(), r.body.iter().zip(&want_body).position(|(a, b)| a != b)));
    }
    match (&r.framing, unknown_len) {
        (Framing::Chunked, true) => {}
        (Framing::ContentLength(n), false) if *n as usize == want_body.len() => {}
        (f, _) => return Outcome::fail("C06.framing", format!("framing {f:?} for a body of {} length ({} bytes)", if unknown_len { "unknown" } else { "known" }, want_body.len())),
    }
    // automatic fields first (any order), then the application's fields verbatim, in order
    let nuser = spec.headers.len();
    if r.headers.len() < nuser {
        return Outcome::fail("C06.user_fields", format!("{} fields parsed, {} were added", r.headers.len(), nuser));
    }
    let (auto, user) = r.headers.split_at(r.headers.len() - nuser);
    if user != spec.headers.as_slice() {
        return Outcome::fail("C06.user_fields", format!("application fields parsed {user:?}, added {:?}", spec.headers));
    }
    let mut want_auto: Vec<(String, String)> = Vec::new();
    if let Some(v) = &ctype_value {
        want_auto.push(("content-type".into(), v.clone()));
    }
    if spec.close {
        want_auto.push(("connection".into(), "close".into()));
    }
    if unknown_len {
        want_auto.push(("transfer-encoding".into(), "chunked".into()));
    } else {
        want_auto.push(("content-length".into(), want_body.len().to_string()));
    }
    let mut got_auto: Vec<(String, String)> = auto.iter().map(|(n, v)| (n.to_ascii_lowercase(), v.clone())).collect();
    got_auto.sort();
    want_auto.sort();
    if got_auto != want_auto {
        return Outcome::fail("C06.automatic_fields", format!("automatic fields {got_auto:?}, expected {want_auto:?}"));
    }
    // metamorphic: identical bytes under another writer schedule
    let mut w2 = if large { ScriptWriter::new(Pieces::Whole) } else { writer_sched() };
    match serialise(&spec, &dir, "b", &mut w2) {
        Ok(Ok(())) => {}
        Ok(Err(e)) => return Outcome::fail("C06.schedule_independent", format!("second serialisation under another writer schedule failed: {e:?}")),
        Err(o) => return o,
    }
    let (r2, end2) = parse_transcript(&w2.out);
    if end2 != End::Clean || r2.len() != 1 || r2[0].code != r.code || r2[0].headers != r.headers || r2[0].body != r.body {
        return Outcome::fail("C06.schedule_independent", format!("what a parser recovers differs between two writer schedules ({} vs {} bytes on the wire)", w.out.len(), w2.out.len()));
    }
    if unknown_len {
        gen::count("probe.chunked_body");
    }
    if matches!(spec.body, BodySpec::File(..) | BodySpec::TempFile(..)) {
        gen::count("probe.file_body");
    }
    Outcome {
        nontrivial: !spec.headers.is_empty() || !want_body.is_empty(),
        case_hash,
        sample: if cfg.index < 2 { Some(json!({"spec": format!("{spec:?}").chars().take(400).collect::<String>(), "bytes": w.out.len()})) } else { None },
        ..Default::default()
    }
}

fn small(cfg: &RunCfg) -> Outcome {
    scenario(cfg, false)
}
fn large(cfg: &RunCfg) -> Outcome {
    scenario(cfg, true)
}

pub fn spec() -> PropertySpec {
    let _ = Tier::Quick;
    PropertySpec {
        id: "C06",
        level: "exploration",
        rule: "write_http_response into a scripted sink (accepts 1..n bytes per call, Pending between calls and on flush, all from the tape); file bodies read through the simulated async-fs with short reads and Pending. Responses generated over status 100-999, all ContentType variants, 0-20 extra fields (token names over all tchar, printable-ASCII+HTAB values, names colliding case-insensitively with content-type/content-length/transfer-encoding once and twice), close flag, body in {static str, static bytes, Vec, File, TempFile (in a quarter of the runs the file on disk is longer than the recorded length), event stream with 0-5 queued events whose chunk sizes mix 1 to 4 hex digits}; large stage uses sizes {65535, 65536, 65537, 200000, 1 MiB+1, 3 MiB}. Oracle: independent strict response parser must recover status, application fields in order, body; automatic-field rules; refusal with zero bytes written when a framing/automatic field would be duplicated; identical parsed content under a second sink schedule. distinct = hash of the generated response spec; non-trivial = has extra fields or a body. One small run in ten has a single transient Interrupted error in the sink: a serialiser that gives up says nothing, one that reports success must have produced exactly the right bytes.",
        scenarios: vec![
            Scenario { name: "c06.small", property: "C06", func: small, runs_quick: 2_000_000, runs_thorough: 40_000_000, doc: "small bodies, all variants" },
            Scenario { name: "c06.large", property: "C06", func: large, runs_quick: 2_000, runs_thorough: 40_000, doc: "bodies around 64 KiB .. 3 MiB" },
        ],
        required_probes: vec!["probe.must_refuse", "probe.chunked_body", "probe.file_body", "probe.file_longer_than_declared"],
        components: components_stream(),
        assumptions: vec!["field values without leading/trailing blanks and without CR/LF (outside the property's input class otherwise)", "application fields named `connection` are not generated (the property lists no rule for them)"],
    }
}
