//! C08 - a failed response write never corrupts the connection.

use super::c06::{build, gen_rspec, serialise, writer_sched, BodySpec, RSpec};
use crate::engine::handler;
use crate::engine::server::{Client, Engine, Frag, NoExtras, Op, ServerCfg};
use crate::engine::stream::{drive, Drive, Pieces, ScriptWriter};
use crate::gen;
use crate::oracle::http::{parse_transcript, End};
use crate::run::{Outcome, RunCfg, Scenario, Tier};
use crate::spec::{components_server, PropertySpec};
use crate::util::RunDir;
use serde_json::json;
use servlin::internal::{HttpError, WriteState};
use servlin::{HttpConn, Response};
use sim_core::with;
use std::io::ErrorKind;
use std::net::{IpAddr, Ipv4Addr, SocketAddr};

#[derive(Clone, Debug, PartialEq, Eq)]
pub enum BodyFault {
    /// the file is cut to `.1` bytes by someone else once `.0` bytes of it have been read
    ShrinksWhileRead(u64, u64),
    None,
    Missing,
    TruncatedTo(usize),
    OpenError,
    ReadErrorAt(u64),
}

fn has(headers: &[(String, String)], name: &str) -> bool {
    headers.iter().any(|(n, _)| n.eq_ignore_ascii_case(name))
}

fn refused(spec: &RSpec) -> bool {
    (spec.ctype != 0 && has(&spec.headers, "content-type")) || has(&spec.headers, "content-length") || has(&spec.headers, "transfer-encoding")
}

fn body_len(spec: &RSpec) -> usize {
    match &spec.body {
        BodySpec::File(n, _) | BodySpec::TempFile(n, _) => *n,
        _ => 0,
    }
}

/// Builds the response and then damages its body source.
fn build_faulty(spec: &RSpec, dir: &RunDir, tag: &str, fault: &BodyFault) -> Response {
    let r = build(spec, dir, tag);
    let path = match &r.body {
        servlin::ResponseBody::File(p, _) => Some(p.clone()),
        servlin::ResponseBody::TempFile(t, _) => Some(t.path().to_path_buf()),
        _ => None,
    };
    if let Some(p) = path {
        match fault {
            BodyFault::None => {}
            BodyFault::Missing => {
                let _ = std::fs::remove_file(&p);
                gen::count("fault.body_file_missing");
            }
            BodyFault::TruncatedTo(t) => {
                let f = std::fs::OpenOptions::new().write(true).open(&p).unwrap();
                f.set_len(*t as u64).unwrap();
                gen::count("fault.body_file_truncated");
            }
            BodyFault::ShrinksWhileRead(after, to) => with(|w| {
                let idx = w.fs.opened.len();
                w.fs.shrink_after.insert(idx, (*after, *to));
            }),
            BodyFault::OpenError => {
                let k = gen::file_error_kind();
                with(|w| w.fs.open_faults.push(k))
            }
            BodyFault::ReadErrorAt(off) => {
                let k = gen::file_error_kind();
                with(|w| {
                let idx = w.fs.opened.len();
                w.fs.read_fail_at.insert(idx, (*off, k));
            })
            }
        }
    }
    r
}

fn gen_body_fault(len: usize) -> BodyFault {
    if len >= 2 && gen::ratio(1, 6) {
        let after = 1 + gen::below(len as u32 - 1) as u64;
        return BodyFault::ShrinksWhileRead(after, gen::pick(&[0u64, after, (len as u64) - 1]));
    }
    match gen::below(5) {
        0 => BodyFault::Missing,
        1 => BodyFault::TruncatedTo(*[0usize, 1, len / 2, len.saturating_sub(1)].get(gen::below(4) as usize).unwrap()),
        2 => BodyFault::OpenError,
        3 => BodyFault::ReadErrorAt(gen::below(len as u32 + 1) as u64),
        _ => BodyFault::TruncatedTo(gen::below(len as u32 + 1) as usize),
    }
}

fn reference(spec: &RSpec, dir: &RunDir) -> Result<Option<Vec<u8>>, Outcome> {
    let mut w = ScriptWriter::new(Pieces::Whole);
    match serialise(spec, dir, "ref", &mut w)? {
        Ok(()) => Ok(Some(w.out)),
        Err(_) => Ok(None), // refused before any byte (C06 decides whether rightly)
    }
}

fn is_prefix(a: &[u8], b: &[u8]) -> bool {
    a.len() <= b.len() && a == &b[..a.len()]
}

/// Level 1a: sink error after exactly k accepted bytes, every k.
fn writer_fault(cfg: &RunCfg) -> Outcome {
    let dir = RunDir::new("c08");
    let spec = gen_rspec(false);
    let full = match reference(&spec, &dir) {
        Ok(Some(f)) => f,
        Ok(None) => return Outcome { nontrivial: false, ..Default::default() },
        Err(o) => return o,
    };
    let ks: Vec<usize> = if full.len() <= if cfg.tier == Tier::Thorough { 4096 } else { 700 } {
        (0..=full.len()).collect()
    } else {
        let head_end = full.windows(4).position(|w| w == b"\r\n\r\n").map(|p| p + 4).unwrap_or(0);
        let mut v = vec![0, 1, head_end.saturating_sub(1), head_end, head_end + 1, full.len() - 1, full.len()];
        for _ in 0..12 {
            v.push(gen::below(full.len() as u32 + 1) as usize);
        }
        v
    };
    let mut n = 0u64;
    for k in ks {
        let mut w = writer_sched();
        // EINTR-like: reported once, then the sink goes on. Giving up (Err + prefix) and a
        // correct retry (Ok + the full serialisation) are both right; resending is not.
        let transient = gen::ratio(1, 8);
        let kind = if transient { ErrorKind::Interrupted } else { gen::write_error_kind() };
        w.fail_at = Some((k, kind));
        w.transient = transient;
        with(|wd| {
            wd.fs.short_io = wd.tape.ratio(1, 2);
        });
        let res = match serialise(&spec, &dir, "f", &mut w) {
            Ok(r) => r,
            Err(o) => return o,
        };
        n += 1;
        if transient {
            if !is_prefix(&w.out, &full) || (res.is_ok() && w.out != full) {
                return Outcome::fail("C08.prefix", format!("a transient (Interrupted) sink error after {k} bytes: result {}, and the {} bytes accepted are not {} the correct serialisation", if res.is_ok() { "Ok" } else { "Err" }, w.out.len(), if res.is_ok() { "exactly" } else { "a prefix of" }));
            }
            continue;
        }
        if k < full.len() && res.is_ok() {
            return Outcome::fail("C08.failure_reported", format!("sink failed after {k} of {} bytes but the serialiser returned Ok", full.len()));
        }
        if !is_prefix(&w.out, &full) {
            return Outcome::fail("C08.prefix", format!("bytes accepted before the sink error at {k} are not a prefix of the correct serialisation"));
        }
        if w.out.len() > k {
            return Outcome::fail("C08.prefix", format!("{} bytes accepted although the sink fails at {k}", w.out.len()));
        }
        if w.writes_after_failure > 0 {
            return Outcome::fail("C08.nothing_after_failure", format!("{} write attempts after the sink reported an error at offset {k}", w.writes_after_failure));
        }
    }
    with(|w| w.count_n("probe.fault_offsets", n));
    Outcome {
        nontrivial: true,
        case_hash: sim_core::tape::fnv1a(format!("{spec:?}").as_bytes()),
        sample: if cfg.index < 1 { Some(json!({"response_bytes": full.len(), "fault_offsets": n})) } else { None },
        ..Default::default()
    }
}

/// Level 1b: body-source faults at the serialiser.
fn body_fault(cfg: &RunCfg) -> Outcome {
    let dir = RunDir::new("c08");
    let mut spec = gen_rspec(false);
    let len = 1 + gen::below(if gen::ratio(1, 8) { 150_000 } else { 3000 }) as usize;
    spec.body = if gen::ratio(1, 2) { BodySpec::File(len, gen::seed32()) } else { BodySpec::TempFile(len, gen::seed32()) };
    let full = match reference(&spec, &dir) {
        Ok(Some(f)) => f,
        Ok(None) => return Outcome::default(),
        Err(o) => return o,
    };
    let fault = gen_body_fault(len);
    with(|wd| {
        wd.fs.short_io = wd.tape.ratio(1, 2);
        wd.fs.spurious_pending_64 = *wd.tape.pick(&[0u32, 10]);
    });
    let resp = build_faulty(&spec, &dir, "f", &fault);
    let mut w = writer_sched();
    let res = match drive(servlin::internal::write_http_response(&mut w, &resp, spec.close), 10_000_000) {
        Drive::Done(r, _) => r,
        Drive::Stalled(p) | Drive::Cap(p) => return Outcome::fail("C08.terminates", format!("serialiser hangs after {p} polls with {fault:?}")),
        Drive::Panicked(m) => return Outcome::fail("C08.no_panic", m),
    };
    let harmless = matches!(fault, BodyFault::TruncatedTo(t) if t >= len) || matches!(fault, BodyFault::ReadErrorAt(o) if o >= len as u64);
    if !harmless && res.is_ok() {
        return Outcome::fail("C08.failure_reported", format!("{fault:?} on a body of {len} bytes but the serialiser returned Ok"));
    }
    if harmless && res.is_ok() && w.out != full {
        return Outcome::fail("C08.prefix", "harmless fault changed the output".to_string());
    }
    if !is_prefix(&w.out, &full) {
        return Outcome::fail("C08.prefix", format!("{fault:?}: the {} bytes written are not a prefix of the correct serialisation", w.out.len()));
    }
    if !harmless && w.out.len() == full.len() {
        return Outcome::fail("C08.short_body_detected", format!("{fault:?}: a complete-looking response was written"));
    }
    Outcome {
        nontrivial: !harmless,
        case_hash: sim_core::tape::fnv1a(format!("{fault:?}{len}").as_bytes()),
        sample: if cfg.index < 1 { Some(json!({"fault": format!("{fault:?}"), "body_len": len, "written": w.out.len()})) } else { None },
        ..Default::default()
    }
}

fn addr() -> SocketAddr {
    SocketAddr::new(IpAddr::V4(Ipv4Addr::new(10, 0, 0, 1)), 10000)
}

fn drive_conn<T>(what: &str, fut: impl std::future::Future<Output = T>) -> Result<T, Outcome> {
    match drive(fut, 10_000_000) {
        Drive::Done(r, _) => Ok(r),
        Drive::Stalled(p) | Drive::Cap(p) => Err(Outcome::fail("C08.terminates", format!("{what} hangs after {p} polls"))),
        Drive::Panicked(m) => Err(Outcome::fail("C08.no_panic", format!("{what}: {m}"))),
    }
}

/// Level 2: `HttpConn::write_response` with a failing socket or body source, then more calls.
fn conn_level(cfg: &RunCfg) -> Outcome {
    let dir = RunDir::new("c08");
    with(|w| w.net.knobs.sock_cap = 16 << 20);
    let mut spec = gen_rspec(false);
    let file_body = gen::ratio(1, 2);
    let len = 1 + gen::below(3000) as usize;
    if file_body {
        spec.body = if gen::ratio(1, 2) { BodySpec::File(len, gen::seed32()) } else { BodySpec::TempFile(len, gen::seed32()) };
    }
    spec.close = (500..600).contains(&spec.code);
    let full = match reference(&spec, &dir) {
        Ok(f) => f,
        Err(o) => return o,
    };
    let id = with(|w| w.direct_conn());
    with(|w| {
        w.net.knobs.short_io = w.tape.ratio(1, 2);
        w.net.knobs.spurious_pending_64 = *w.tape.pick(&[0u32, 8]);
        w.client_write(id, b"GET /x HTTP/1.1\r\n\r\n");
    });
    let mut conn = HttpConn::new(addr(), async_net::TcpStream::sim_from_conn(id));
    match drive_conn("read_request", conn.read_request()) {
        Ok(Ok(_)) => {}
        Ok(Err(e)) => return Outcome { harness_error: Some(format!("setup read_request failed: {e:?}")), ..Default::default() },
        Err(o) => return o,
    }
    // choose the fault
    let sock_fault = !file_body || gen::ratio(1, 2);
    let mut fault_desc = String::new();
    let resp = if sock_fault {
        let n = full.as_ref().map(|f| f.len()).unwrap_or(0);
        let k = match gen::below(3) {
            0 => 0,
            _ => gen::below(n as u32 + 1) as u64,
        };
        // (one in eight is EINTR-like: reported once, then the socket works again; the oracle
        // below already accepts both giving up and a correct retry)
        let transient = gen::ratio(1, 8);
        let wk = if transient { ErrorKind::Interrupted } else { gen::write_error_kind() };
        with(|w| {
            w.net.conns[id].fail_write_at = Some((k, wk));
            w.net.conns[id].write_fault_transient = transient;
        });
        fault_desc = format!("socket write error ({wk:?}{}) after {k} bytes", if transient { ", transient" } else { "" });
        build(&spec, &dir, "f")
    } else {
        let f = gen_body_fault(len);
        fault_desc = format!("{f:?}");
        build_faulty(&spec, &dir, "f", &f)
    };
    let res = match drive_conn("write_response", conn.write_response(&resp)) {
        Ok(r) => r,
        Err(o) => return o,
    };
    let sent: Vec<u8> = with(|w| w.net.conns[id].s2c.buf.iter().copied().collect());
    let fin = with(|w| w.net.conns[id].s2c.fin);
    let is_1xx = spec.code / 100 == 1;
    match (&res, &full) {
        (Ok(()), Some(f)) => {
            if &sent != f {
                return Outcome::fail("C08.prefix", format!("{fault_desc}: write_response returned Ok but the wire differs from the correct serialisation"));
            }
        }
        (Ok(()), None) => return Outcome::fail("C08.prefix", "a response the serialiser must refuse was reported as written".to_string()),
        (Err(_), Some(f)) => {
            if !is_prefix(&sent, f) {
                return Outcome::fail("C08.prefix", format!("{fault_desc}: the {} bytes on the wire are not a prefix of the correct serialisation", sent.len()));
            }
        }
        (Err(_), None) => {
            if !sent.is_empty() {
                return Outcome::fail("C08.prefix", "bytes on the wire for a refused response".to_string());
            }
        }
    }
    if res.is_err() {
        if !sent.is_empty() {
            gen::count("probe.failed_after_some_bytes");
            if conn.write_state != WriteState::Shutdown || !fin {
                return Outcome::fail(
                    "C08.shutdown_after_partial",
                    format!("{fault_desc}: {} bytes were sent, then the write failed, but write_state={:?} fin_sent={fin}", sent.len(), conn.write_state),
                );
            }
            // nothing else is ever written
            let again = match drive_conn("second write_response", conn.write_response(&Response::text(500, "Internal server error"))) {
                Ok(r) => r,
                Err(o) => return o,
            };
            let sent2: Vec<u8> = with(|w| w.net.conns[id].s2c.buf.iter().copied().collect());
            if again.is_ok() || sent2 != sent {
                return Outcome::fail("C08.no_second_status_line", format!("{fault_desc}: after a partially sent response another response was written ({} more bytes)", sent2.len() - sent.len()));
            }
        } else {
            gen::count("probe.failed_with_zero_bytes");
            if conn.write_state != WriteState::Response && conn.write_state != WriteState::Shutdown {
                return Outcome::fail("C08.zero_bytes_keeps_owed_response", format!("{fault_desc}: nothing was sent but write_state={:?}", conn.write_state));
            }
            // with a healthy socket the connection can still carry one well-formed 500
            let healthy = with(|w| w.net.conns[id].fail_write_at.is_none());
            if healthy {
                if conn.write_state != WriteState::Response {
                    return Outcome::fail("C08.zero_bytes_keeps_owed_response", format!("{fault_desc}: nothing was sent, the socket is healthy, but write_state={:?}", conn.write_state));
                }
                let r500 = match drive_conn("500 after refusal", conn.write_response(&Response::text(500, "Internal server error"))) {
                    Ok(r) => r,
                    Err(o) => return o,
                };
                let wire: Vec<u8> = with(|w| w.net.conns[id].s2c.buf.iter().copied().collect());
                let (rs, end) = parse_transcript(&wire);
                if r500.is_err() || end != End::Clean || rs.len() != 1 || rs[0].code != 500 {
                    return Outcome::fail("C08.single_500_after_zero_bytes", format!("{fault_desc}: after a failure with nothing sent, the 500 could not be delivered cleanly: {r500:?} {end:?} {}", gen::show(&wire)));
                }
            }
        }
    } else if !is_1xx {
        // success: a second final response must be refused and leave the wire alone
        let again = match drive_conn("second write_response", conn.write_response(&Response::new(200))) {
            Ok(r) => r,
            Err(o) => return o,
        };
        let sent2: Vec<u8> = with(|w| w.net.conns[id].s2c.buf.iter().copied().collect());
        if again.is_ok() || sent2 != sent {
            return Outcome::fail("C08.no_second_status_line", "a second final response was written".to_string());
        }
        if !matches!(again, Err(HttpError::ResponseAlreadySent | HttpError::Disconnected)) {
            return Outcome::fail("C08.no_second_status_line", format!("second write_response returned {again:?}"));
        }
    }
    Outcome {
        nontrivial: res.is_err(),
        case_hash: sim_core::tape::fnv1a(fault_desc.as_bytes()) ^ sent.len() as u64,
        sample: if cfg.index < 1 { Some(json!({"fault": fault_desc, "sent": sent.len(), "result": format!("{res:?}")})) } else { None },
        ..Default::default()
    }
}

/// True if `wire` is (a prefix of) exactly one well-formed 500 response marked `connection: close`.
/// `complete` demands the whole response.
fn is_single_500(wire: &[u8], complete: bool) -> bool {
    if wire.is_empty() {
        return !complete;
    }
    let (rs, end) = parse_transcript(wire);
    match end {
        End::Clean => rs.len() == 1 && rs[0].code == 500 && rs[0].header_all("connection") == vec!["close"],
        End::Truncated(_) if !complete => rs.len() <= 1 && (rs.is_empty() || rs[0].code == 500) && (wire.len() < 12 || wire.starts_with(b"HTTP/1.1 500")),
        _ => false,
    }
}

/// Level 3: the full server; the client's transcript must be a prefix of the correct
/// response, or (nothing of it sent) exactly one well-formed 500.
fn server_level(cfg: &RunCfg) -> Outcome {
    let dir = RunDir::new("c08");
    let scfg = ServerCfg { max_conns: 2, small_body_len: 64, cache_dir: None, with_permit: false };
    with(|w| {
        w.net.knobs.sock_cap = *w.tape.pick(&[64usize, 1024, 262_144]);
        w.net.knobs.short_io = w.tape.ratio(1, 2);
        w.net.knobs.spurious_pending_64 = *w.tape.pick(&[0u32, 8]);
        w.fs.short_io = w.tape.ratio(1, 2);
    });
    let mut spec = gen_rspec(false);
    if matches!(spec.body, BodySpec::Events(_)) {
        spec.body = BodySpec::Vec(gen::below(2000) as usize, gen::seed32());
    }
    if spec.code / 100 == 1 {
        spec.code = 200;
    }
    let len = 1 + gen::below(if gen::ratio(1, 6) { 100_000 } else { 3000 }) as usize;
    let file_body = gen::ratio(1, 2);
    if file_body {
        spec.body = if gen::ratio(1, 2) { BodySpec::File(len, gen::seed32()) } else { BodySpec::TempFile(len, gen::seed32()) };
    }
    spec.close = (500..600).contains(&spec.code);
    let full = match reference(&spec, &dir) {
        Ok(f) => f,
        Err(o) => return o,
    };
    let full_len = full.as_ref().map(|f| f.len()).unwrap_or(139);
    let mut eng = match Engine::start(scfg) {
        Ok(e) => e,
        Err(e) => return Outcome { harness_error: Some(e), ..Default::default() },
    };
    // (virtual time may pass at any step: a timer a change introduces can fire while a
    // client is not reading)
    let mut eng = eng;
    eng.weights.early_timer_64 = gen::pick(&[0u32, 0, 4]);
    // fault choice
    let kind = gen::weighted(&[if file_body { 4 } else { 0 }, 3, 3, 2, 1]);
    let body_fault = if kind == 0 { gen_body_fault(len) } else { BodyFault::None };
    let spec2 = spec.clone();
    let dirpath = dir.path.clone();
    let bf = body_fault.clone();
    handler::HANDLER.with(|h| {
        h.borrow_mut().custom = Some(Box::new(move |_req| {
            let d = RunDir { path: dirpath.clone() };
            let r = build_faulty(&spec2, &d, "srv", &bf);
            std::mem::forget(d); // the directory belongs to the scenario
            r
        }))
    });
    let mut ops = vec![Op::Connect, Op::Send(b"GET /x HTTP/1.1\r\n\r\n".to_vec())];
    let mut cl_fail = None;
    let mut desc = format!("{body_fault:?}");
    match kind {
        1 => {
            let k = gen::below(full_len as u32 + 1) as u64;
            cl_fail = Some((k, gen::write_error_kind()));
            desc = format!("server-side write error after {k} bytes");
            ops.push(Op::Fin);
        }
        2 => {
            let k = gen::below(full_len as u32 + 1) as usize;
            ops.push(Op::AwaitBytes(k));
            ops.push(Op::Rst);
            desc = format!("client RST after receiving {k} bytes");
        }
        3 => {
            let k = gen::below(full_len as u32 + 1) as usize;
            ops.push(Op::AwaitBytes(k));
            ops.push(Op::StopReading);
            ops.push(Op::Fin);
            desc = format!("client FIN and stops reading after {k} bytes");
            gen::count("fault.client_stops_reading");
        }
        _ => ops.push(Op::Fin),
    }
    let mut cl = Client::new(ops, Frag::Whole);
    cl.fail_server_write_at = cl_fail;
    cl.keep_server_log = true;
    cl.slow_read = gen::ratio(1, 3);
    eng.add_client(cl);
    eng.run(&mut NoExtras);
    if eng.hit_cap {
        return Outcome::fail("C08.terminates", "never quiesces");
    }
    if let Some(p) = eng.sut_panics().first() {
        return Outcome::fail("C08.no_task_panic", format!("{desc}: {p}"));
    }
    let conn = eng.clients[0].conn.unwrap();
    // everything the server ever put on the wire for this connection
    let wire: Vec<u8> = with(|w| w.net.conns[conn].s2c_log.clone());
    let ok = match &full {
        Some(f) => is_prefix(&wire, f) || is_single_500(&wire, true),
        None => is_single_500(&wire, false),
    };
    if !ok {
        let (rs, end) = parse_transcript(&wire);
        return Outcome::fail(
            "C08.wire_is_prefix_or_single_500",
            format!(
                "{desc}: the server wrote {} bytes that are neither a prefix of the correct response ({} bytes) nor a single 500; parsed {} message(s), {end:?}; tail: {}",
                wire.len(),
                full_len,
                rs.len(),
                gen::show(&wire[wire.len().saturating_sub(120)..])
            ),
        );
    }
    // a partially sent response is followed by FIN (unless the peer is gone or the server is blocked on a stalled reader)
    let complete = full.as_ref().map(|f| &wire == f).unwrap_or(false) || is_single_500(&wire, true);
    let (fin, rst, blocked) = with(|w| {
        let c = &w.net.conns[conn];
        (c.s2c.fin, c.rst, !c.server_closed && c.s2c.free() == 0)
    });
    if !wire.is_empty() && !complete {
        gen::count("probe.partial_response_on_wire");
        if !fin && !rst && !blocked {
            return Outcome::fail("C08.shutdown_after_partial", format!("{desc}: a partial response ({} of {} bytes) is on the wire but the write side was never shut down", wire.len(), full_len));
        }
    }
    if is_single_500(&wire, true) && full.as_deref() != Some(&wire[..]) {
        gen::count("probe.single_500_instead");
    }
    Outcome {
        nontrivial: kind != 4,
        case_hash: sim_core::tape::fnv1a(desc.as_bytes()),
        sample: if cfg.index < 2 { Some(json!({"fault": desc, "correct_len": full_len, "on_wire": wire.len()})) } else { None },
        ..Default::default()
    }
}

pub fn spec() -> PropertySpec {
    PropertySpec {
        id: "C08",
        level: "fault_enumeration",
        rule: "Same fault plans at three levels. (1) write_http_response into a scripted sink that fails after exactly k accepted bytes for EVERY k in 0..=len (responses <= 700 bytes quick / 4096 thorough; head/body boundaries +-1 and drawn k for larger ones), combined with short writes and Pending; body files missing, open error, read error at offset, truncated to {0,1,half,len-1,random}. (2) HttpConn::write_response on a simulated socket with the same faults, followed by further calls. (3) the full simulated server: server-side write error at k, client RST at k, client FIN-and-stop-reading at k, body-file faults. Oracle: R = fault-free serialisation of the same response (second execution); bytes on the wire are a prefix of R; after a partial send the write side is shut down and nothing else is ever written (no second status line); after a zero-byte failure one well-formed 500 is still possible; no task panic. probe.fault_offsets counts individual (response, k) executions. non-trivial = a fault that actually interferes. Error kinds are drawn from 15 kinds; one fault in eight is a TRANSIENT Interrupted error (reported once, then the sink / socket works again): giving up (error + correct prefix + the shutdown rules) and a correct retry (success + exactly the correct bytes) are both accepted, resent bytes are not. Body files may also be cut by another process WHILE they are being read (after r bytes, to 0 / r / len-1 bytes).",
        scenarios: vec![
            Scenario { name: "c08.writer_fault", property: "C08", func: writer_fault, runs_quick: 20_000, runs_thorough: 300_000, doc: "every sink-failure offset" },
            Scenario { name: "c08.body_fault", property: "C08", func: body_fault, runs_quick: 400_000, runs_thorough: 8_000_000, doc: "body-source faults at the serialiser" },
            Scenario { name: "c08.conn", property: "C08", func: conn_level, runs_quick: 400_000, runs_thorough: 8_000_000, doc: "HttpConn level" },
            Scenario { name: "c08.server", property: "C08", func: server_level, runs_quick: 300_000, runs_thorough: 6_000_000, doc: "server level" },
        ],
        required_probes: vec![
            "fault.writer_error", "fault.body_file_missing", "fault.body_file_truncated", "fault.fs_open", "fault.fs_read", "fault.fs_file_shrinks_while_read", "fault.writer_error_transient", "fault.server_write_error", "fault.client_rst", "fault.client_stops_reading",
            "probe.failed_after_some_bytes", "probe.failed_with_zero_bytes", "probe.partial_response_on_wire", "probe.single_500_instead",
        ],
        components: components_server(),
        assumptions: vec!["a socket that failed once stays failed (except the transient Interrupted fault, which is reported once)", "kernel-level partial segment loss is below the model"],
    }
}
