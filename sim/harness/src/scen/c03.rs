//! C03 - message framing comes only from the headers; ambiguous framing is rejected.

use super::httpgen::{check_conn_any, client_for, model_conn_variants, Malf, Meta, Req, ReqKind};
use crate::engine::handler::{self, OnPending, OnReady, Plan, RespSpec};
use crate::engine::server::{Engine, Frag, NoExtras, ServerCfg};
use crate::gen;
use crate::run::{Outcome, RunCfg, Scenario};
use crate::spec::{components_server, PropertySpec};
use crate::util::RunDir;
use serde_json::json;
use sim_core::with;
use std::collections::BTreeMap;

/// Independent verdict of the framing model for one message.
#[derive(Clone, Debug, PartialEq, Eq)]
enum Verdict {
    Empty,
    Body(u64),
    UntilEof,
    Coded { chunked: bool, gzip: bool },
    Reject(Malf),
}

/// The framing model: a function of (method, Content-Length values, Transfer-Encoding values).
fn framing_model(method: &str, cls: &[String], tes: &[String]) -> Option<Verdict> {
    // Transfer-Encoding
    let coding = match tes.len() {
        0 => (false, false),
        1 => {
            let elems: Vec<&str> = tes[0].split(',').map(|s| s.trim_matches(|c| c == ' ' || c == '\t')).collect();
            if elems.iter().any(|e| e.is_empty()) {
                return None; // empty list elements: not pinned by the statement
            }
            match elems.as_slice() {
                ["chunked"] => (true, false),
                ["gzip"] => (false, true),
                ["gzip", "chunked"] => (true, true),
                _ => return Some(Verdict::Reject(Malf::TransferEncoding)), // unknown or mis-ordered
            }
        }
        _ => return Some(Verdict::Reject(Malf::TransferEncoding)), // repeated field
    };
    // Content-Length
    let cl: Option<u64> = match cls.len() {
        0 => None,
        1 => {
            let v = cls[0].trim_matches(|c| c == ' ' || c == '\t');
            if v.is_empty() || !v.bytes().all(|b| b.is_ascii_digit()) {
                return Some(Verdict::Reject(Malf::ContentLength));
            }
            match v.parse::<u64>() {
                Ok(n) => Some(n),
                Err(_) => return Some(Verdict::Reject(Malf::ContentLength)), // overflow
            }
        }
        _ => return Some(Verdict::Reject(Malf::ContentLength)), // repeated, equal or not
    };
    if coding.0 || coding.1 {
        // With a Content-Length as well the message is ambiguous (RFC 7230 3.3.3): the coding
        // must still be reported and refused when read, or the message rejected outright;
        // the caller accepts both readings. It must never be framed by the length.
        return Some(Verdict::Coded { chunked: coding.0, gzip: coding.1 });
    }
    Some(match cl {
        Some(0) => Verdict::Empty,
        Some(n) => Verdict::Body(n),
        None => {
            if method == "POST" || method == "PUT" {
                Verdict::UntilEof
            } else {
                Verdict::Empty
            }
        }
    })
}

fn ctype_model(v: &str) -> String {
    let base = v.split(';').next().unwrap_or("");
    let name = match base {
        "text/css" => "Css",
        "text/csv" => "Csv",
        "text/event-stream" => "EventStream",
        "application/x-www-form-urlencoded" => "FormUrlEncoded",
        "image/gif" => "Gif",
        "text/html" => "Html",
        "text/javascript" => "JavaScript",
        "image/jpeg" => "Jpeg",
        "application/json" => "Json",
        "text/markdown" => "Markdown",
        "multipart/form-data" => "MultipartForm",
        "" => "None",
        "application/octet-stream" => "OctetStream",
        "application/pdf" => "Pdf",
        "text/plain" => "PlainText",
        "image/png" => "Png",
        "image/svg+xml" => "Svg",
        _ => return format!("String({v:?})"),
    };
    name.to_string()
}

const MIMES: [&str; 19] = [
    "text/css", "text/csv", "text/event-stream", "application/x-www-form-urlencoded", "image/gif", "text/html", "text/javascript", "image/jpeg", "application/json", "text/markdown",
    "multipart/form-data", "application/octet-stream", "application/pdf", "text/plain", "image/png", "image/svg+xml", "application/x-unknown", "text/plain; charset=utf-8", "application/json;q=1",
];

fn decoy_body(n: usize, tag: usize) -> Vec<u8> {
    let mut v = Vec::new();
    let mut k = 0;
    while v.len() < n {
        v.extend_from_slice(format!("GET /decoy-{tag}-{k} HTTP/1.1\r\n\r\n").as_bytes());
        k += 1;
    }
    v.truncate(n);
    v
}

fn gen_message(conn: usize, i: usize, s: usize, last: bool, allow_ambiguous: bool) -> Option<(Req, bool)> {
    let path = format!("/c{conn}r{i}");
    let method = gen::pick(&["GET", "M", "DELETE", "POST", "PUT"]).to_string();
    let cl_name = || gen::pick(&["content-length", "Content-Length", "CONTENT-LENGTH"]).to_string();
    // --- Content-Length multiset
    let mut cls: Vec<(String, String)> = Vec::new();
    let mut body_len: usize = 0;
    match gen::weighted(&[5, 8, 3, 3]) {
        0 => {}
        1 => {
            body_len = match gen::below(6) {
                0 => 0,
                1 => 1,
                2 => gen::below(s as u32 + 1) as usize,
                3 => s + 1 + gen::below(200) as usize,
                4 => 8192 + gen::below(300) as usize,
                _ => gen::below(3000) as usize,
            };
            let v = if gen::ratio(1, 8) { format!(" {body_len}\t") } else { body_len.to_string() };
            cls.push((cl_name(), v));
        }
        2 => {
            // invalid single value
            // (digits with a control byte next to them: only SP and HTAB are optional whitespace)
            let v = gen::pick(&["+5", "-1", "0x10", "5,5", "", "abc", "18446744073709551616", "5 5", "1e3", "٣", "5\u{c}", "\u{c}5", "5\u{b}", "\u{b}5", "5\u{0}", "5\u{7f}", "\u{1f}5", "5\u{c}\u{c}"]).to_string();
            if v == "٣" {
                return None;
            }
            body_len = 5;
            cls.push((cl_name(), v));
        }
        _ => {
            // repeated: equal or different
            body_len = 1 + gen::below(40) as usize;
            let a = body_len.to_string();
            let b = if gen::ratio(1, 2) { a.clone() } else { (body_len + 1 + gen::below(3) as usize).to_string() };
            cls.push((cl_name(), a));
            cls.push((cl_name(), b));
            if gen::ratio(1, 4) {
                cls.push((cl_name(), "0".into()));
            }
        }
    }
    let huge = cls.len() == 1 && gen::ratio(1, 30);
    if huge {
        cls[0].1 = "18446744073709551615".into();
    }
    // --- Transfer-Encoding multiset (not together with a Content-Length: not pinned)
    let mut tes: Vec<(String, String)> = Vec::new();
    let valid_single_cl = cls.len() == 1 && !huge && cls[0].1.trim_matches(|c| c == ' ' || c == '\t').bytes().all(|b| b.is_ascii_digit()) && !cls[0].1.trim_matches(|c| c == ' ' || c == '\t').is_empty();
    if allow_ambiguous && valid_single_cl && gen::ratio(1, 10) {
        // a transfer coding next to a length (0 included)
        if gen::ratio(1, 2) {
            cls[0].1 = "0".into();
        }
        tes.push((gen::pick(&["transfer-encoding", "Transfer-Encoding"]).to_string(), gen::pick(&["chunked", "gzip", "gzip, chunked"]).to_string()));
        // with length 0 nothing follows the head, so that every reading agrees about the next byte
        body_len = if cls[0].1 == "0" { 0 } else { body_len };
    }
    if cls.is_empty() {
        let te_name = || gen::pick(&["transfer-encoding", "Transfer-Encoding"]).to_string();
        match gen::weighted(&[10, 2, 1, 1, 2, 2]) {
            0 => {}
            1 => tes.push((te_name(), "chunked".into())),
            2 => tes.push((te_name(), "gzip".into())),
            3 => tes.push((te_name(), gen::pick(&["gzip, chunked", "gzip,chunked", "gzip ,\tchunked"]).to_string())),
            4 => tes.push((te_name(), gen::pick(&["chunked, gzip", "bogus", "chunked, chunked", "identity", "gzip, chunked, bogus", "deflate"]).to_string())),
            _ => {
                tes.push((te_name(), gen::pick(&["chunked", "gzip"]).to_string()));
                tes.push((te_name(), gen::pick(&["chunked", "gzip", "bogus"]).to_string()));
            }
        }
        if !tes.is_empty() {
            body_len = gen::below(120) as usize;
        }
    }
    let cl_vals: Vec<String> = cls.iter().map(|x| x.1.clone()).collect();
    let te_vals: Vec<String> = tes.iter().map(|x| x.1.clone()).collect();
    let verdict = framing_model(&method, &cl_vals, &te_vals)?;
    let ambiguous = !cl_vals.is_empty() && !te_vals.is_empty() && matches!(verdict, Verdict::Coded { .. });
    if verdict == Verdict::UntilEof && !last {
        return None; // an until-EOF body swallows everything that follows; only as last message
    }
    // --- other fields
    let expect = matches!(verdict, Verdict::Body(_)) && gen::ratio(1, 5);
    let ctype = if gen::ratio(1, 2) { Some(gen::pick(&MIMES).to_string()) } else { None };
    let mut cookies: BTreeMap<String, String> = BTreeMap::new();
    let mut cookie_fields: Vec<String> = Vec::new();
    for _ in 0..gen::below(3) {
        let mut parts = Vec::new();
        for _ in 0..1 + gen::below(3) {
            let k = format!("k{}", gen::below(4));
            let v = gen::pick(&["v", "", "a=b", "\"q\"", "x y"]).to_string();
            parts.push(format!("{k}={v}"));
            cookies.insert(k, v);
        }
        cookie_fields.push(parts.join(gen::pick(&["; ", ";", " ; "])));
    }
    // --- assemble the head: framing fields in random positions among the others
    let mut fields: Vec<(String, String)> = Vec::new();
    fields.extend(cls.iter().cloned());
    fields.extend(tes.iter().cloned());
    if expect {
        fields.push(("expect".into(), "100-continue".into()));
    }
    if let Some(c) = &ctype {
        fields.push(("content-type".into(), c.clone()));
    }
    for c in &cookie_fields {
        fields.push(("cookie".into(), c.clone()));
    }
    for j in 0..gen::below(3) {
        fields.push((format!("x-f{j}"), format!("v{}", gen::below(9))));
    }
    // shuffle (Fisher-Yates from the tape)
    for k in (1..fields.len()).rev() {
        let j = gen::below(k as u32 + 1) as usize;
        fields.swap(k, j);
    }
    // the cookie map follows the order in which the fields finally appear
    cookies.clear();
    // The statement only asks for a pure function of the header fields. Which of two
    // different values for one cookie name wins is C15's matter (and is disturbed by the
    // header-removal order, C14): such messages are not compared on cookies.
    let mut ambiguous_cookie = false;
    for (n, v) in &fields {
        if n == "cookie" {
            for seg in v.split(';') {
                let seg = seg.trim_matches(|c| c == ' ' || c == '\t');
                if let Some((k, val)) = seg.split_once('=') {
                    if let Some(prev) = cookies.insert(k.to_string(), val.to_string()) {
                        if prev != val {
                            ambiguous_cookie = true;
                        }
                    }
                }
            }
        }
    }
    let mut head = format!("{method} {path} HTTP/1.1\r\n").into_bytes();
    // (one message in forty carries 100-140 other fields in front of its framing fields:
    // what a field means must not depend on how many came before it)
    if gen::ratio(1, 40) {
        for k in 0..100 + gen::below(41) {
            head.extend_from_slice(format!("x-f{k}:v\r\n").as_bytes());
        }
        gen::count("probe.more_than_100_fields");
    }
    for (n, v) in &fields {
        head.extend_from_slice(format!("{n}:{}{v}\r\n", if gen::ratio(1, 2) { " " } else { "" }).as_bytes());
    }
    head.extend_from_slice(b"\r\n");
    // --- body bytes on the wire: decoy heads
    let (kind, raw_body) = match &verdict {
        Verdict::Empty => {
            // bytes after an empty-bodied message would be the next request: send none
            (if cl_vals.is_empty() { ReqKind::NoBody } else { ReqKind::Known(0) }, Vec::new())
        }
        Verdict::Body(n) => {
            if *n > 1 << 40 {
                (ReqKind::HugeKnown(*n), Vec::new())
            } else {
                (ReqKind::Known(*n as usize), decoy_body(*n as usize, i))
            }
        }
        Verdict::UntilEof => (ReqKind::Unknown(body_len.max(1)), decoy_body(body_len.max(1), i)),
        Verdict::Coded { .. } => (ReqKind::Coded(body_len), decoy_body(body_len, i)),
        Verdict::Reject(m) => (ReqKind::Malformed(*m), decoy_body(body_len, i)),
    };
    let (chunked, gzip) = match verdict {
        Verdict::Coded { chunked, gzip } => (chunked, gzip),
        _ => (false, false),
    };
    let content_length = match &verdict {
        Verdict::Body(n) => Some(*n),
        Verdict::Empty if !cl_vals.is_empty() => Some(0),
        Verdict::Coded { .. } if ambiguous => cl_vals[0].trim_matches(|c| c == ' ' || c == '\t').parse::<u64>().ok(),
        _ => None,
    };
    let big = match kind {
        ReqKind::Known(n) => n as u64 + 100,
        _ => 1_000_000,
    };
    Some((Req {
        path,
        method,
        kind,
        expect,
        wait100: expect && gen::ratio(1, 2),
        body_seed: 0,
        plan: Plan {
            on_pending: if gen::ratio(1, 8) { OnPending::Respond } else { OnPending::GetBody(big) },
            on_ready: OnReady::Respond,
            resp: RespSpec { code: 200, body_len: gen::below(20) as usize, body_seed: gen::seed32(), ctype: 1, headers: vec![] },
        },
        extra_headers: vec![],
        raw_head: Some(head),
        raw_body: Some(raw_body),
        meta: Some(Meta {
            ctype: Some(ctype.as_deref().map(ctype_model).unwrap_or_else(|| "None".to_string())),
            expect: Some(expect),
            cookies: if ambiguous_cookie { None } else { Some(cookies) },
            chunked,
            gzip,
            content_length,
        }),
    }, ambiguous))
}

fn scenario(cfg: &RunCfg) -> Outcome {
    let dir = RunDir::new("c03");
    let s = gen::pick(&[16usize, 100, 1000]);
    let scfg = ServerCfg { max_conns: 2, small_body_len: s, cache_dir: Some(dir.path.clone()), with_permit: false };
    with(|w| {
        w.net.knobs.sock_cap = *w.tape.pick(&[256usize, 8192, 262_144]);
        w.net.knobs.short_io = w.tape.ratio(1, 2);
        w.net.knobs.spurious_pending_64 = *w.tape.pick(&[0u32, 0, 8]);
    });
    let mut eng = match Engine::start(scfg.clone()) {
        Ok(e) => e,
        Err(e) => return Outcome { harness_error: Some(e), ..Default::default() },
    };
    let n = 1 + gen::below(8) as usize;
    let mut reqs: Vec<Req> = Vec::new();
    let mut ambiguous: Vec<usize> = Vec::new();
    for i in 0..n {
        let mut tries = 0;
        loop {
            tries += 1;
            if let Some((r, amb)) = gen_message(0, i, s, i + 1 == n, ambiguous.len() < 2) {
                if amb {
                    ambiguous.push(reqs.len());
                    gen::count("probe.coding_and_length_together");
                }
                reqs.push(r);
                break;
            }
            if tries > 20 {
                break;
            }
        }
    }
    if reqs.is_empty() {
        return Outcome::default();
    }
    for r in &reqs {
        handler::set_plan(&r.path, r.plan.clone());
    }
    // decoys must never reach the handler: give them a recognisable default plan
    handler::HANDLER.with(|h| h.borrow_mut().default_plan = Some(Plan::respond(299)));
    let pipelined = gen::ratio(2, 3);
    let frag = gen::pick(&[Frag::Whole, Frag::Random, Frag::Random, Frag::Byte]);
    let mut cl = client_for(&reqs, pipelined, frag);
    cl.slow_read = gen::ratio(1, 4);
    eng.add_client(cl);
    eng.run(&mut NoExtras);
    if eng.hit_cap {
        return Outcome::fail("C03.terminates", "never quiesces");
    }
    if let Some(p) = eng.sut_panics().first() {
        return Outcome::fail("C03.no_task_panic", p.clone());
    }
    let calls = handler::calls();
    if let Some(d) = calls.iter().find(|c| c.path.contains("decoy")) {
        let heads: Vec<String> = reqs.iter().map(|r| gen::show(&r.head())).collect();
        return Outcome::fail("C03.body_bytes_never_parsed_as_request", format!("body bytes were interpreted as request {} ; messages sent: {heads:?}", d.path));
    }
    let c0 = &eng.clients[0];
    if !c0.done() {
        let heads: Vec<String> = reqs.iter().map(|r| gen::show(&r.head())).collect();
        return Outcome::fail("C03.progress", format!("client stuck at step {} of {:?}; messages sent: {heads:?}", c0.pc, c0.ops.iter().map(|o| format!("{o:?}").chars().take(24).collect::<String>()).collect::<Vec<_>>()));
    }
    let conn = c0.conn.unwrap();
    let variants = model_conn_variants(&reqs, &scfg, &ambiguous);
    let exp = &variants[0];
    let at_eof = with(|w| w.client_at_eof(conn));
    if let Some(mut v) = check_conn_any("C03", "conn", &variants, &calls, &c0.received, at_eof) {
        let heads: Vec<String> = reqs.iter().map(|r| gen::show(&r.head())).collect();
        v.detail = format!("{} ; messages sent: {heads:?}", v.detail);
        return Outcome { violation: Some(v), nontrivial: true, ..Default::default() };
    }
    let rejects = reqs.iter().filter(|r| matches!(r.kind, ReqKind::Malformed(_))).count();
    if rejects > 0 && exp.resps.iter().any(|r| r.code == 400) {
        gen::count("probe.ambiguous_framing_rejected");
    }
    if reqs.iter().any(|r| matches!(r.kind, ReqKind::Coded(_))) {
        gen::count("probe.transfer_coding");
    }
    if calls.len() >= 3 {
        gen::count("probe.three_or_more_messages_framed");
    }
    Outcome {
        nontrivial: reqs.len() >= 2,
        sample: if cfg.index < 2 { Some(json!({"messages": reqs.iter().map(|r| gen::show(&r.head())).collect::<Vec<_>>(), "handler_runs": calls.len()})) } else { None },
        ..Default::default()
    }
}

/// A transient (EINTR-like) read error on the server side of the socket, at every offset of
/// a sized request followed by a pipelined one. Giving up with an error is right and so is
/// a correct retry; what may never happen is a body of another length than Content-Length
/// or a next request parsed from the wrong byte.
fn interrupted_read(cfg: &RunCfg) -> Outcome {
    use crate::engine::stream::{drive, Drive};
    use servlin::HttpConn;
    use std::net::{IpAddr, Ipv4Addr, SocketAddr};
    let n = 1 + gen::below(if gen::ratio(1, 5) { 9000 } else { 200 }) as usize;
    let body = sim_core::tape::content(gen::seed32(), n);
    let head1 = format!("POST /first HTTP/1.1\r\ncontent-length: {n}\r\n\r\n").into_bytes();
    let head2 = b"GET /second HTTP/1.1\r\n\r\n".to_vec();
    let mut data = head1.clone();
    data.extend_from_slice(&body);
    data.extend_from_slice(&head2);
    // every offset is reached through the run index; short reads decide the rest
    let k = (cfg.index as usize) % (data.len() + 1);
    let id = with(|w| {
        w.net.knobs.sock_cap = 1 << 20;
        w.net.knobs.short_io = w.tape.ratio(2, 3);
        w.net.knobs.spurious_pending_64 = *w.tape.pick(&[0u32, 6]);
        let id = w.direct_conn();
        w.client_write(id, &data);
        w.client_shutdown_write(id);
        w.net.conns[id].fail_read_at = Some((k as u64, std::io::ErrorKind::Interrupted));
        w.net.conns[id].read_fault_transient = true;
        id
    });
    let fired = || with(|w| w.net.conns[id].fail_read_at.is_none());
    let ctx = format!("content-length {n}, transient Interrupted read error after {k} of {} stream bytes", data.len());
    let mut conn = HttpConn::new(SocketAddr::new(IpAddr::V4(Ipv4Addr::new(10, 0, 0, 1)), 10000), async_net::TcpStream::sim_from_conn(id));
    macro_rules! call {
        ($what:expr, $fut:expr) => {
            match drive($fut, 5_000_000) {
                Drive::Done(v, _) => v,
                Drive::Panicked(m) => return Outcome::fail("C03.no_panic", format!("{ctx}: {} panicked: {m}", $what)),
                other => return Outcome { harness_error: Some(format!("{ctx}: {} did not finish: {:?}", $what, matches!(other, Drive::Stalled(_)))), ..Default::default() },
            }
        };
    }
    let done = |gave_up: bool| Outcome { nontrivial: true, case_hash: sim_core::tape::mix(n as u64, k as u64), sample: None, violation: None, harness_error: if gave_up { None } else { None } };
    // first request
    let r1 = call!("read_request", conn.read_request());
    match r1 {
        Err(e) => {
            if !fired() {
                return Outcome::fail("C03.framed_by_length", format!("{ctx}: the first request was refused with {e:?} before the fault happened"));
            }
            gen::count("probe.gave_up_after_interrupt");
            return done(true);
        }
        Ok(req) => {
            if req.url().path() != "/first" || req.content_length != Some(n as u64) {
                return Outcome::fail("C03.framed_by_length", format!("{ctx}: first request parsed as {} with content_length {:?}", req.url().path(), req.content_length));
            }
        }
    }
    let fired_before_body = fired();
    let b = call!("read_body_to_vec", conn.read_body_to_vec());
    match b {
        Err(e) => {
            if !fired() || fired_before_body {
                return Outcome::fail("C03.framed_by_length", format!("{ctx}: reading the body failed with {e:?} although no fault happened during the call"));
            }
            gen::count("probe.gave_up_after_interrupt");
            return done(true);
        }
        Ok(rb) => {
            let got: Vec<u8> = match Vec::<u8>::try_from(rb) {
                Ok(v) => v,
                Err(e) => return Outcome::fail("C03.framed_by_length", format!("{ctx}: body unreadable: {e}")),
            };
            if got != body {
                return Outcome::fail(
                    "C03.framed_by_length",
                    format!("{ctx}: the body handed over has {} bytes (content-length {n}){}", got.len(), if got.len() > n && got[..n] == body[..] { " - it swallowed bytes of the next request" } else { "" }),
                );
            }
        }
    }
    if let Err(e) = call!("write_response", conn.write_response(&servlin::Response::new(200))) {
        return Outcome::fail("C03.framed_by_length", format!("{ctx}: write_response failed: {e:?}"));
    }
    let fired_before_second = fired();
    match call!("second read_request", conn.read_request()) {
        Err(e) => {
            if !fired() || fired_before_second {
                return Outcome::fail("C03.next_request_starts_after_body", format!("{ctx}: the pipelined request was refused with {e:?} although no fault happened during the call"));
            }
            gen::count("probe.gave_up_after_interrupt");
        }
        Ok(req) => {
            if req.url().path() != "/second" {
                return Outcome::fail("C03.next_request_starts_after_body", format!("{ctx}: the pipelined request parsed as {:?}", req.url().path()));
            }
            if fired() {
                gen::count("probe.carried_on_after_interrupt");
            }
        }
    }
    done(false)
}

pub fn spec() -> PropertySpec {
    PropertySpec {
        id: "C03",
        level: "exploration",
        rule: "Histories of 1-8 messages on one simulated connection to the real server with a recording handler that always fetches pending bodies. Each message draws method class x Content-Length multiset (absent; valid 0, 1, <=S, >S, >8 KiB buffer, padded, 2^64-1; +5, -1, 0x10, '5,5', empty, non-numeric, 2^64, '5 5', 1e3; repeated equal / different / differing in name case) x Transfer-Encoding multiset (absent, chunked, gzip, gzip+chunked, reversed, unknown, repeated) x Expect x Content-Type (every table entry, parameters, unknown) x 0-2 Cookie fields, fields shuffled. Bodies are filled with decoy request heads; every genuine request has a unique path. Delivery: pipelined or ping-pong, whole / byte-wise / random fragments, short socket reads. Oracle: an independent framing model folds the header multisets into Body(n) / Empty / UntilEof / Coded / Reject verdicts, giving the exact handler log (bodies, content type, expect flag, cookie map, coding flags) and responses; no decoy may ever reach the handler. A coding together with a Content-Length (0 included) is generated too: the statement pins no single reading (its length clause and its coding clause both apply), so three are accepted: coding reported and refused when read, rejected outright, or - length 0 only - framed by the length. Combinations the statement does not pin (empty list elements, Expect without length on bodiless methods) are not generated. distinct = schedule hash; non-trivial = at least 2 messages. Second stage (HttpConn level): a sized request followed by a pipelined one, with ONE transient (EINTR-like) read error on the server side of the socket after k stream bytes, k enumerated over every offset; giving up with an error and a correct retry are both accepted, a body of any other length than Content-Length or a next request parsed from the wrong byte is not.",
        scenarios: vec![Scenario { name: "c03.framing", property: "C03", func: scenario, runs_quick: 250_000, runs_thorough: 8_000_000, doc: "framing histories" },
            Scenario { name: "c03.interrupted_read", property: "C03", func: interrupted_read, runs_quick: 150_000, runs_thorough: 3_000_000, doc: "transient read error at every offset of a sized request + pipelined request (HttpConn level)" },
        ],
        required_probes: vec!["probe.ambiguous_framing_rejected", "probe.transfer_coding", "probe.three_or_more_messages_framed", "probe.coding_and_length_together", "probe.gave_up_after_interrupt", "probe.more_than_100_fields"],
        components: components_server(),
        assumptions: vec!["coding names are generated in lower case only", "obsolete line folding and absolute-form targets are outside the grammar the library documents"],
    }
}
