//! C09 - body size limits are exact at every boundary and bodies arrive intact.

use super::httpgen::{check_conn, client_for, model_conn, Req, ReqKind};
use crate::engine::handler::{self, OnPending, OnReady, Plan, RespSpec};
use crate::engine::server::{Engine, Frag, NoExtras, ServerCfg};
use crate::gen;
use crate::run::{Outcome, RunCfg, Scenario};
use crate::spec::{components_server, PropertySpec};
use crate::util::RunDir;
use serde_json::json;
use sim_core::with;

const CLAMP: u64 = 200 * 1024;

fn s_values() -> [usize; 4] {
    [0, 1, 100, 65_536]
}

fn m_values(s: u64) -> [u64; 8] {
    [0, 1, s.saturating_sub(1), s, s + 1, 70_000, 1 << 63, u64::MAX]
}

fn l_values(s: u64, m: u64) -> [u64; 9] {
    [0, 1, s.saturating_sub(1), s, s + 1, m.saturating_sub(1), m, m.saturating_add(1), m.saturating_add(2)]
}

/// index -> one cell of the cross product (4608 cells).
fn decode(idx: u64) -> (usize, u64, u64, bool, bool, bool, bool) {
    let mut i = idx;
    let s = s_values()[(i % 4) as usize];
    i /= 4;
    let m = m_values(s as u64)[(i % 8) as usize];
    i /= 8;
    let l = l_values(s as u64, m)[(i % 9) as usize].min(CLAMP);
    i /= 9;
    let declared = i % 2 == 0;
    i /= 2;
    let expect = i % 2 == 1;
    i /= 2;
    let via_recv_body = i % 2 == 1;
    i /= 2;
    let cache = i % 2 == 0;
    (s, m, l, declared, expect, via_recv_body, cache)
}

fn run_cell(cfg: &RunCfg, s: usize, m: u64, l: u64, declared: bool, expect: bool, via_recv_body: bool, cache: bool) -> Outcome {
    let dir = RunDir::new("c09");
    let scfg = ServerCfg { max_conns: 1, small_body_len: s, cache_dir: if cache { Some(dir.path.clone()) } else { None }, with_permit: false };
    with(|w| {
        w.net.knobs.sock_cap = *w.tape.pick(&[262_144usize, 4096, 700]);
        w.net.knobs.short_io = w.tape.ratio(1, 2);
        w.net.knobs.spurious_pending_64 = *w.tape.pick(&[0u32, 0, 6]);
        w.fs.short_io = w.tape.ratio(1, 3);
        w.fs.spurious_pending_64 = *w.tape.pick(&[0u32, 8]);
    });
    let mut eng = match Engine::start(scfg.clone()) {
        Ok(e) => e,
        Err(e) => return Outcome { harness_error: Some(e), ..Default::default() },
    };
    eng.step_cap = 3_000_000;
    let req = Req {
        path: "/up".into(),
        method: if declared { gen::pick(&["POST", "PUT", "M"]).to_string() } else { gen::pick(&["POST", "PUT"]).to_string() },
        kind: if declared { ReqKind::Known(l as usize) } else { ReqKind::Unknown(l as usize) },
        expect: expect && (l > 0 || !declared),
        wait100: expect && gen::ratio(2, 3),
        body_seed: gen::seed32(),
        plan: Plan {
            on_pending: if via_recv_body { OnPending::RecvBody(m) } else { OnPending::GetBody(m) },
            on_ready: OnReady::Respond,
            resp: RespSpec { code: 200, body_len: 3, body_seed: 1, ctype: 1, headers: vec![] },
        },
        extra_headers: vec![],
        raw_head: None,
        raw_body: None,
        meta: None,
    };
    handler::set_plan(&req.path, req.plan.clone());
    // A declared-length upload that the client cuts short (sends fewer bytes than it
    // announced, then half-closes): nothing may be handed over as if it were the body.
    // (an undeclared-length body ends with the client's FIN; one that is cut by a RESET has
    // not ended, it was aborted)
    let cut_short: Option<usize> = if l > 0 && gen::ratio(1, 8) { Some(gen::pick(&[0usize, 1, (l / 2) as usize, (l - 1) as usize]).min((l - 1) as usize)) } else { None };
    let mut req = req;
    if cut_short.is_some() {
        req.expect = false;
        req.wait100 = false;
    }
    let reqs = vec![req];
    let frag = gen::pick(&[Frag::Whole, Frag::Random, Frag::Random]);
    let mut cl = match cut_short {
        Some(k) => {
            gen::count("fault.upload_cut_short_by_fin");
            let body = reqs[0].body();
            crate::engine::server::Client::new(
                if declared {
                    vec![crate::engine::server::Op::Connect, crate::engine::server::Op::Send(reqs[0].head()), crate::engine::server::Op::Send(body[..k.min(body.len())].to_vec()), crate::engine::server::Op::Fin, crate::engine::server::Op::AwaitFinal(1)]
                } else {
                    vec![crate::engine::server::Op::Connect, crate::engine::server::Op::Send(reqs[0].head()), crate::engine::server::Op::Send(body[..k.min(body.len())].to_vec()), crate::engine::server::Op::Pause(gen::below(12)), crate::engine::server::Op::Rst]
                },
                frag,
            )
        }
        None => client_for(&reqs, gen::ratio(1, 2), frag),
    };
    cl.slow_read = gen::ratio(1, 4);
    eng.add_client(cl);
    eng.run(&mut NoExtras);
    let cell = format!("S={s} M={m} L={l} declared={declared} expect={} recv_body={via_recv_body} cache_dir={cache}", reqs[0].expect);
    if eng.hit_cap {
        return Outcome::fail("C09.terminates", format!("{cell}: never quiesces"));
    }
    if let Some(p) = eng.sut_panics().first() {
        return Outcome::fail("C09.no_task_panic", format!("{cell}: {p}"));
    }
    let cl = &eng.clients[0];
    if !cl.done() {
        return Outcome::fail("C09.progress", format!("{cell}: client stuck at step {} (e.g. waiting for a 100-continue that never came)", cl.pc));
    }
    let conn = cl.conn.unwrap();
    let exp = model_conn(&reqs, &scfg);
    let calls = handler::calls();
    let at_eof = with(|w| w.client_at_eof(conn));
    if let Some(k) = cut_short {
        let cell = format!("{cell}; the client sent only {k} of the {l} body bytes and {}", if declared { "half-closed" } else { "reset the connection" });
        if let Some(c) = calls.iter().find(|c| !c.pending) {
            return Outcome::fail("C09.body_intact", format!("{cell}: the handler was run with a body ({} bytes, kind {}) although the announced body never arrived completely", c.body.as_ref().map(|b| b.len()).unwrap_or(0), c.body_kind));
        }
        let (rs, _) = crate::oracle::http::parse_transcript(&cl.received);
        if let Some(r) = rs.iter().find(|r| r.code / 100 == 2) {
            return Outcome::fail("C09.decision_table", format!("{cell}: answered with {}", r.code));
        }
        return Outcome { nontrivial: true, case_hash: sim_core::tape::fnv1a(cell.as_bytes()), ..Default::default() };
    }
    if let Some(mut v) = check_conn("C09", &cell, &exp, &calls, &cl.received, at_eof) {
        // name the decision-table clauses specifically
        if v.clause == "C09.response_content" || v.clause == "C09.handler_runs" || v.clause == "C09.response_count" {
            v.clause = "C09.decision_table".into();
        }
        return Outcome { violation: Some(v), nontrivial: true, ..Default::default() };
    }
    // resource invariants
    for c in &calls {
        if let Some(b) = &c.body {
            let in_memory = matches!(c.body_kind, "vec" | "static-str" | "static-bytes");
            if in_memory && b.len() > s {
                return Outcome::fail("C09.memory_bound", format!("{cell}: a body of {} bytes was handed over in memory, small_body_len={s}", b.len()));
            }
        }
    }
    let (max_file, created) = with(|w| (w.fs.max_single_file_written, w.fs.created.len()));
    if max_file > m.saturating_add(1) {
        return Outcome::fail("C09.disk_bound", format!("{cell}: {max_file} body bytes were written to one cache file, the handler's limit is {m}"));
    }
    if declared && l > m && created > 0 {
        return Outcome::fail("C09.disk_bound", format!("{cell}: a declared length above the limit must be refused before anything is written, but {created} cache file(s) were created"));
    }
    if !dir.list().is_empty() {
        gen::count("probe.cache_file_left_at_end");
    }
    if !declared && l > m && cache {
        gen::count("probe.undeclared_over_limit");
    }
    if declared && l == m && l > s as u64 && cache {
        gen::count("probe.declared_exactly_at_limit");
    }
    if m == u64::MAX && !declared && cache {
        gen::count("probe.limit_u64_max_undeclared");
    }
    Outcome {
        nontrivial: true,
        case_hash: sim_core::tape::fnv1a(cell.as_bytes()),
        sample: if cfg.index == 777 || cfg.index == 3001 { Some(json!({"cell": cell, "handler_runs": calls.len(), "response": gen::show(&cl.received[..cl.received.len().min(60)])})) } else { None },
        ..Default::default()
    }
}

fn cross_product(cfg: &RunCfg) -> Outcome {
    let (s, m, l, declared, expect, via, cache) = decode(cfg.index % 4608);
    run_cell(cfg, s, m, l, declared, expect, via, cache)
}

fn sampled(cfg: &RunCfg) -> Outcome {
    let s = match gen::below(3) {
        0 => gen::below(300) as usize,
        1 => gen::below(5000) as usize,
        _ => gen::pick(&[0usize, 1, 100, 8191, 8192, 8193, 65_536, 1 << 40, usize::MAX - 1, usize::MAX]),
    };
    let m = match gen::below(4) {
        0 => u64::from(gen::below(400)),
        1 => u64::from(gen::below(20_000)),
        2 => (s as u64).saturating_add(u64::from(gen::below(3))),
        _ => gen::pick(&[0u64, 65_536, 1 << 32, u64::MAX - 1, u64::MAX]),
    };
    let near = gen::pick(&[0u64, (s as u64).min(CLAMP), m.min(CLAMP)]);
    let l = (near + u64::from(gen::below(5))).saturating_sub(2).min(CLAMP);
    run_cell(cfg, s, m, l, gen::ratio(1, 2), gen::ratio(1, 3), gen::ratio(1, 3), gen::ratio(5, 6))
}

/// Several uploads to ONE path on one keep-alive connection, each with its own length and
/// its own handler limit: a decision must never be carried over from an earlier request.
fn same_path_sequence(cfg: &RunCfg) -> Outcome {
    let dir = RunDir::new("c09q");
    let s = gen::pick(&[0usize, 1, 100, 5000]);
    let scfg = ServerCfg { max_conns: 1, small_body_len: s, cache_dir: Some(dir.path.clone()), with_permit: false };
    with(|w| {
        w.net.knobs.sock_cap = *w.tape.pick(&[262_144usize, 4096]);
        w.net.knobs.short_io = w.tape.ratio(1, 2);
        w.fs.short_io = w.tape.ratio(1, 3);
    });
    let mut eng = match Engine::start(scfg.clone()) {
        Ok(e) => e,
        Err(e) => return Outcome { harness_error: Some(e), ..Default::default() },
    };
    eng.step_cap = 3_000_000;
    let n = 2 + gen::below(3) as usize;
    let base_m = u64::from(gen::below(20_000)) + s as u64;
    let mut reqs = Vec::new();
    let mut cells = Vec::new();
    for i in 0..n {
        // limits and lengths around each other: later requests are often within an earlier
        // request's limit but over their own
        let m = match gen::below(4) {
            0 => base_m,
            1 => base_m / 2,
            2 => u64::from(gen::below(300)),
            _ => base_m * 2,
        };
        let l = match gen::below(5) {
            0 => gen::below(s as u32 + 2) as u64,
            1 => m,
            2 => m + 1,
            3 => base_m,
            _ => base_m / 2 + 1,
        }
        .min(CLAMP);
        let key = format!("plan{i}");
        let plan = Plan {
            on_pending: if gen::ratio(1, 4) { OnPending::RecvBody(m) } else { OnPending::GetBody(m) },
            on_ready: OnReady::Respond,
            resp: RespSpec { code: 200, body_len: 3, body_seed: i as u32, ctype: 1, headers: vec![] },
        };
        handler::set_plan(&key, plan.clone());
        reqs.push(Req {
            path: "/up".into(),
            method: gen::pick(&["POST", "PUT"]).to_string(),
            kind: ReqKind::Known(l as usize),
            expect: false,
            wait100: false,
            body_seed: gen::seed32(),
            plan,
            extra_headers: vec![("x-plan".into(), key)],
            raw_head: None,
            raw_body: None,
            meta: None,
        });
        cells.push(format!("#{i}: L={l} M={m}"));
    }
    // One EINTR on the server side of the socket in a share of the runs. The server may
    // give up at that point or carry on; whatever it hands to the handler must still be
    // exactly what was sent, and within the bounds.
    let total_stream: usize = reqs.iter().map(|r| r.head().len() + r.body().len()).sum();
    let eintr = gen::ratio(1, 6);
    if eintr {
        let at = u64::from(gen::below(total_stream as u32 + 1));
        with(|w| w.net.knobs.eintr_read_at = Some(at));
        cells.push(format!("Interrupted read once after {at} stream bytes"));
    }
    let mut cl = client_for(&reqs, gen::ratio(1, 2), gen::pick(&[Frag::Whole, Frag::Random]));
    cl.slow_read = gen::ratio(1, 4);
    eng.add_client(cl);
    eng.run(&mut NoExtras);
    let cell = format!("S={s} same path /up, requests {cells:?}");
    if eng.hit_cap {
        return Outcome::fail("C09.terminates", format!("{cell}: never quiesces"));
    }
    if let Some(p) = eng.sut_panics().first() {
        return Outcome::fail("C09.no_task_panic", format!("{cell}: {p}"));
    }
    let cl = &eng.clients[0];
    let conn = match cl.conn {
        Some(c) => c,
        None => return Outcome { harness_error: Some("client never connected".into()), ..Default::default() },
    };
    let exp = model_conn(&reqs, &scfg);
    let calls = handler::calls();
    let at_eof = with(|w| w.client_at_eof(conn));
    let eintr_fired = eintr && with(|w| w.counters.get("fault.server_read_error").copied().unwrap_or(0) > 0);
    if eintr_fired {
        gen::count("probe.eintr_during_upload_sequence");
        // the exchange may stop at the fault: what did happen must be a prefix of the model
        for (i, c) in calls.iter().enumerate() {
            match exp.calls.get(i) {
                Some(e) if e.path == c.path && e.pending == c.pending => {
                    if let (Some(want), Some(got)) = (&e.body, &c.body) {
                        if want != got {
                            return Outcome::fail("C09.body_intact", format!("{cell}: handler run #{i} got a body of {} bytes, {} were sent for that request", got.len(), want.len()));
                        }
                    }
                }
                _ => return Outcome::fail("C09.decision_table", format!("{cell}: handler run #{i} (pending={}) is not what the decision table prescribes next", c.pending)),
            }
        }
    } else if let Some(mut v) = check_conn("C09", &cell, &exp, &calls, &cl.received, at_eof) {
        if v.clause == "C09.response_content" || v.clause == "C09.handler_runs" || v.clause == "C09.response_count" {
            v.clause = "C09.decision_table".into();
        }
        return Outcome { violation: Some(v), nontrivial: true, ..Default::default() };
    }
    for c in &calls {
        if let Some(b) = &c.body {
            if matches!(c.body_kind, "vec" | "static-str" | "static-bytes") && b.len() > s {
                return Outcome::fail("C09.memory_bound", format!("{cell}: a body of {} bytes was handed over in memory, small_body_len={s}", b.len()));
            }
        }
    }
    if calls.iter().filter(|c| !c.pending).count() >= 2 {
        gen::count("probe.two_uploads_same_path_handled");
    }
    Outcome { nontrivial: true, case_hash: sim_core::tape::fnv1a(cell.as_bytes()), sample: if cfg.index < 1 { Some(json!({"cell": cell})) } else { None }, ..Default::default() }
}

pub fn spec() -> PropertySpec {
    PropertySpec {
        id: "C09",
        level: "exploration",
        rule: "One upload per run against the real server in simulation. Enumerated stage: the full cross product S in {0,1,100,65536} x M in {0,1,S-1,S,S+1,70000,2^63,2^64-1} x L in {0,1,S-1,S,S+1,M-1,M,M+1,M+2} (clamped to 200 KiB) x {declared, undeclared} x {Expect, none} x {GetBodyAndReprocess(M), Request::recv_body(M)} x {cache dir, none} = 4608 cells, each run several times under different fragmentation / short-I/O / scheduling draws; sampled stage: S, M drawn freely (S also 2^40, usize::MAX-1, usize::MAX), L within +-2 of 0, S, M; sequence stage: 2-4 declared-length uploads to ONE path on one keep-alive connection, each with its own L and its own handler limit M (no decision may be carried over from an earlier request). One declared upload in eight is cut short by the client (k of L announced bytes, then FIN): the handler must never be run with a body and no 2xx may be sent. Clients that send Expect wait for the interim response (a lost 100 is a quiescence-detected deadlock). Oracle: reference decision table (in-memory hand-over iff declared L <= S, ask first otherwise, accept iff L <= M with byte-for-byte equal body, 413 without a second handler run iff L > M), resource invariants from the simulated file layer (bytes written to a cache file <= M+1, nothing written for a declared L > M, no in-memory body above S). distinct = the cell; runs/cell vary the schedule.",
        scenarios: vec![
            Scenario { name: "c09.cross_product", property: "C09", func: cross_product, runs_quick: 4608 * 12, runs_thorough: 4608 * 400, doc: "full cross product" },
            Scenario { name: "c09.sampled", property: "C09", func: sampled, runs_quick: 150_000, runs_thorough: 4_000_000, doc: "free S, M; L near the boundaries" },
            Scenario { name: "c09.same_path_sequence", property: "C09", func: same_path_sequence, runs_quick: 60_000, runs_thorough: 1_500_000, doc: "2-4 uploads to one path on one connection, each with its own limit" },
        ],
        required_probes: vec!["probe.undeclared_over_limit", "probe.declared_exactly_at_limit", "probe.limit_u64_max_undeclared", "probe.two_uploads_same_path_handled", "probe.eintr_during_upload_sequence", "fault.upload_cut_short_by_fin"],
        components: components_server(),
        assumptions: vec![
            "'holds in memory' is observed as the kind and size of the body object handed to the handler",
            "the overflow-checks build makes arithmetic wrap-around a task panic (a violation) instead of a silent wrong value",
            "without a cache dir either 500 or 413 is accepted (builder documentation and error mapping disagree; the property pins neither)",
        ],
    }
}
