//! Request workloads for the full-server engine and the sequential reference model of
//! one connection (what the handler must see, what the client must receive, where the
//! connection ends). Written from the property statements and the crate's documented
//! behaviour, not from its code.

use crate::engine::handler::{Call, OnPending, OnReady, Plan, RespSpec};
use crate::engine::server::{Client, Frag, Op, ServerCfg};
use crate::gen;
use crate::oracle::http::{parse_transcript, End, Framing, Resp};
use crate::run::Violation;
use sim_core::tape::content;

#[derive(Clone, Copy, Debug, PartialEq, Eq)]
pub enum Malf {
    RequestLine,
    Version,
    HeaderLine,
    Path,
    ContentLength,
    TransferEncoding,
    Cookie,
}
impl Malf {
    pub const ALL: [Malf; 7] = [
        Malf::RequestLine,
        Malf::Version,
        Malf::HeaderLine,
        Malf::Path,
        Malf::ContentLength,
        Malf::TransferEncoding,
        Malf::Cookie,
    ];
    pub fn status_and_body(self) -> (u16, &'static str) {
        match self {
            Malf::RequestLine => (400, "HttpError::MalformedRequestLine"),
            Malf::Version => (505, "HttpError::UnsupportedProtocol"),
            Malf::HeaderLine => (400, "HttpError::MalformedHeaderLine"),
            Malf::Path => (400, "HttpError::MalformedPath"),
            Malf::ContentLength => (400, "HttpError::InvalidContentLength"),
            Malf::TransferEncoding => (400, "HttpError::UnsupportedTransferEncoding"),
            Malf::Cookie => (400, "HttpError::MalformedCookieHeader"),
        }
    }
}

#[derive(Clone, Debug, PartialEq, Eq)]
pub enum ReqKind {
    NoBody,
    Known(usize),
    Unknown(usize),
    Malformed(Malf),
    /// Declared length too large to ever send (e.g. 2^64-1); no body bytes follow.
    HugeKnown(u64),
    /// A transfer coding (chunked and/or gzip): reported to the handler, refused when read.
    /// The usize is the number of (undecoded) body bytes that follow the head.
    Coded(usize),
}

#[derive(Clone, Debug)]
pub struct Req {
    pub path: String,
    pub method: String,
    pub kind: ReqKind,
    pub expect: bool,
    pub wait100: bool,
    pub body_seed: u32,
    pub plan: Plan,
    pub extra_headers: Vec<(String, String)>,
    /// When set, these exact bytes are the head (the generator knows what it wrote).
    pub raw_head: Option<Vec<u8>>,
    /// When set, the body bytes to send (instead of generated content).
    pub raw_body: Option<Vec<u8>>,
    /// What the handler must be told: (content type Debug text, expect flag, cookies, chunked, gzip).
    pub meta: Option<Meta>,
}

/// All acceptable expectations for a connection: the primary reading, plus - for messages
/// that carry both a transfer coding and a Content-Length (ambiguous per RFC 7230 3.3.3) -
/// the readings in which such a message is rejected outright with a 400 or (length 0 only) framed
/// by its length with the coding merely reported. The statement pins none of them.
pub fn model_conn_variants(reqs: &[Req], cfg: &ServerCfg, ambiguous: &[usize]) -> Vec<ConnExpect> {
    // every combination of readings of the ambiguous messages (there are few of them)
    let mut variants: Vec<Vec<Req>> = vec![reqs.to_vec()];
    assert!(ambiguous.len() <= 2, "the generator limits ambiguous messages per connection");
    for &i in ambiguous.iter() {
        if i >= reqs.len() {
            continue;
        }
        let mut next = Vec::new();
        for base in &variants {
            next.push(base.clone()); // coding reported, refused when read
            for m in [Malf::TransferEncoding, Malf::ContentLength] {
                let mut alt = base.clone();
                alt[i].kind = ReqKind::Malformed(m);
                alt[i].meta = None;
                next.push(alt);
            }
            // framed by its (zero) length with the coding merely reported: the statement's
            // "single valid Content-Length N" clause read literally
            if base[i].meta.as_ref().and_then(|m| m.content_length) == Some(0) {
                let mut alt = base.clone();
                alt[i].kind = ReqKind::Known(0);
                next.push(alt);
            }
        }
        variants = next;
    }
    variants.iter().map(|r| model_conn(r, cfg)).collect()
}

/// Passes if ANY acceptable expectation matches; otherwise reports against the primary one.
pub fn check_conn_any(prop: &str, conn_label: &str, variants: &[ConnExpect], calls: &[Call], transcript: &[u8], at_eof: bool) -> Option<Violation> {
    let mut first = None;
    for e in variants {
        match check_conn(prop, conn_label, e, calls, transcript, at_eof) {
            None => return None,
            Some(v) => {
                if first.is_none() {
                    first = Some(v);
                }
            }
        }
    }
    first
}
#[derive(Clone, Debug, PartialEq, Eq)]
pub struct Meta {
    pub ctype: Option<String>,
    pub expect: Option<bool>,
    pub cookies: Option<std::collections::BTreeMap<String, String>>,
    pub chunked: bool,
    pub gzip: bool,
    pub content_length: Option<u64>,
}
impl Req {
    pub fn body(&self) -> Vec<u8> {
        if let Some(b) = &self.raw_body {
            return b.clone();
        }
        match self.kind {
            ReqKind::Known(n) | ReqKind::Unknown(n) | ReqKind::Coded(n) => content(self.body_seed, n),
            _ => Vec::new(),
        }
    }
    pub fn head(&self) -> Vec<u8> {
        if let Some(h) = &self.raw_head {
            return h.clone();
        }
        let mut s = String::new();
        match &self.kind {
            ReqKind::Malformed(Malf::RequestLine) => s.push_str(&format!("{} {}\r\n", self.method, self.path)),
            ReqKind::Malformed(Malf::Version) => s.push_str(&format!("{} {} HTTP/1.0\r\n", self.method, self.path)),
            ReqKind::Malformed(Malf::Path) => s.push_str(&format!("{} {} HTTP/1.1\r\n", self.method, &self.path[1..])),
            _ => s.push_str(&format!("{} {} HTTP/1.1\r\n", self.method, self.path)),
        }
        for (n, v) in &self.extra_headers {
            s.push_str(&format!("{n}: {v}\r\n"));
        }
        match &self.kind {
            ReqKind::Known(n) => s.push_str(&format!("content-length: {n}\r\n")),
            ReqKind::Malformed(Malf::HeaderLine) => s.push_str("this is not a header\r\n"),
            ReqKind::Malformed(Malf::ContentLength) => s.push_str("content-length: 12x\r\n"),
            ReqKind::Malformed(Malf::TransferEncoding) => s.push_str("transfer-encoding: bogus\r\n"),
            ReqKind::Malformed(Malf::Cookie) => s.push_str("cookie: novalue\r\n"),
            _ => {}
        }
        if self.expect {
            s.push_str("expect: 100-continue\r\n");
        }
        s.push_str("\r\n");
        s.into_bytes()
    }
    /// Only for generated (not raw) heads: extra fields plus the content-length field.
    pub fn expected_headers(&self) -> Option<Vec<(String, String)>> {
        if self.raw_head.is_some() {
            return None;
        }
        let mut v: Vec<(String, String)> = self.extra_headers.clone();
        if let ReqKind::Known(n) = self.kind {
            v.push(("content-length".into(), n.to_string()));
        }
        v.sort();
        Some(v)
    }
    pub fn has_pending_body(&self, cfg: &ServerCfg) -> bool {
        match self.kind {
            ReqKind::Known(n) => n > cfg.small_body_len,
            ReqKind::Unknown(_) | ReqKind::HugeKnown(_) | ReqKind::Coded(_) => true,
            _ => false,
        }
    }
}

#[derive(Clone, Debug)]
pub struct ExpCall {
    pub path: String,
    pub pending: bool,
    pub body: Option<Vec<u8>>,
    pub meta: Option<Meta>,
    /// The header fields the handler must see (what was sent minus the framing fields the
    /// library consumes), compared as a multiset: their order is C14's matter.
    pub headers: Option<Vec<(String, String)>>,
}

#[derive(Clone, Debug)]
pub struct ExpResp {
    pub code: u16,
    pub body: Vec<u8>,
    /// Application-set fields, in order (None: library-generated response, not compared).
    pub user_headers: Option<Vec<(String, String)>>,
    pub ctype: Option<&'static str>,
    /// An alternative (status, body) that is acceptable too where the documentation and
    /// the statement leave the choice open.
    pub alt: Option<(u16, Vec<u8>)>,
}

#[derive(Clone, Debug, Default)]
pub struct ConnExpect {
    pub calls: Vec<ExpCall>,
    pub resps: Vec<ExpResp>,
    /// Index of the request after which the server ends the connection by itself
    /// (None: it serves everything and closes when the client half-closes).
    pub early_close_at: Option<usize>,
    pub requests_served: usize,
}

fn lib_resp(code: u16, body: &str) -> ExpResp {
    ExpResp {
        code,
        body: body.as_bytes().to_vec(),
        user_headers: None,
        ctype: Some("text/plain; charset=UTF-8"),
        alt: None,
    }
}

/// No cache directory configured: the builder's documentation says 413, the error
/// mapping gives 500; the properties pin neither.
fn no_cache_dir_resp() -> ExpResp {
    let mut r = lib_resp(500, "Internal server error");
    r.alt = Some((413, b"Uploaded data is too big.".to_vec()));
    r
}

fn plan_resp(spec: &RespSpec) -> ExpResp {
    ExpResp {
        code: spec.code,
        body: spec.body(),
        user_headers: Some(spec.headers.clone()),
        ctype: match spec.ctype {
            0 => None,
            1 => Some("text/plain; charset=UTF-8"),
            2 => Some("application/json; charset=UTF-8"),
            3 => Some("application/octet-stream"),
            _ => Some("text/html; charset=UTF-8"),
        },
        alt: None,
    }
}

/// The sequential reference model of one connection.
pub fn model_conn(reqs: &[Req], cfg: &ServerCfg) -> ConnExpect {
    let mut e = ConnExpect::default();
    for (i, r) in reqs.iter().enumerate() {
        // returns true when the connection goes on after this request
        let mut ready_phase = |e: &mut ConnExpect, body: Vec<u8>, unknown_len: bool| -> bool {
            e.calls.push(ExpCall {
                path: r.path.clone(),
                pending: false,
                body: Some(body),
                meta: r.meta.clone(),
                headers: r.expected_headers(),
            });
            match &r.plan.on_ready {
                OnReady::Respond | OnReady::RespondKeepingClone => {
                    e.resps.push(plan_resp(&r.plan.resp));
                    let c = r.plan.resp.code;
                    !(unknown_len || (400..600).contains(&c) || c / 100 == 1)
                }
                OnReady::GetBodyAgain(_) => {
                    e.resps.push(lib_resp(500, "Internal server error"));
                    false
                }
                OnReady::Drop => false,
                OnReady::Panic => {
                    e.resps.push(lib_resp(500, "Server error"));
                    false
                }
                OnReady::EventStream => true,
            }
        };
        let goes_on = match &r.kind {
            ReqKind::Malformed(m) => {
                let (code, body) = m.status_and_body();
                e.resps.push(lib_resp(code, body));
                false
            }
            ReqKind::NoBody => ready_phase(&mut e, Vec::new(), false),
            ReqKind::Known(0) => ready_phase(&mut e, Vec::new(), false),
            ReqKind::Known(n) if *n <= cfg.small_body_len => {
                if r.expect {
                    e.resps.push(ExpResp {
                        code: 100,
                        body: vec![],
                        user_headers: None,
                        ctype: None,
                        alt: None,
                    });
                }
                ready_phase(&mut e, r.body(), false)
            }
            ReqKind::HugeKnown(n) => {
                e.calls.push(ExpCall { path: r.path.clone(), pending: true, body: None, meta: r.meta.clone(), headers: r.expected_headers() });
                match &r.plan.on_pending {
                    OnPending::Respond => e.resps.push(plan_resp(&r.plan.resp)),
                    OnPending::GetBody(m) | OnPending::RecvBody(m) => {
                        if matches!(r.plan.on_pending, OnPending::RecvBody(_)) || cfg.cache_dir.is_some() {
                            // the declared length exceeds any limit we generate
                            assert!(*n > *m);
                            e.resps.push(lib_resp(413, "Uploaded data is too big."));
                        } else {
                            e.resps.push(no_cache_dir_resp());
                        }
                    }
                    OnPending::Drop => {}
                    OnPending::Panic => e.resps.push(lib_resp(500, "Server error")),
                }
                false
            }
            ReqKind::Coded(_) => {
                e.calls.push(ExpCall { path: r.path.clone(), pending: true, body: None, meta: r.meta.clone(), headers: r.expected_headers() });
                match &r.plan.on_pending {
                    OnPending::Respond => e.resps.push(plan_resp(&r.plan.resp)),
                    OnPending::GetBody(_) | OnPending::RecvBody(_) => {
                        if cfg.cache_dir.is_some() {
                            // refused when the body is read
                            e.resps.push(lib_resp(400, "HttpError::UnsupportedTransferEncoding"));
                        } else {
                            e.resps.push(lib_resp(500, "Internal server error"));
                        }
                    }
                    OnPending::Drop => {}
                    OnPending::Panic => e.resps.push(lib_resp(500, "Server error")),
                }
                false
            }
            ReqKind::Known(n) | ReqKind::Unknown(n) => {
                let unknown = matches!(r.kind, ReqKind::Unknown(_));
                e.calls.push(ExpCall {
                    path: r.path.clone(),
                    pending: true,
                    body: None,
                    meta: r.meta.clone(),
                    headers: r.expected_headers(),
                });
                let fetch = |e: &mut ConnExpect, m: u64, ready: &mut dyn FnMut(&mut ConnExpect, Vec<u8>, bool) -> bool| -> bool {
                    if cfg.cache_dir.is_none() {
                        e.resps.push(no_cache_dir_resp());
                        return false;
                    }
                    if (*n as u64) > m {
                        // known length: refused before reading; unknown: after reading m+1 bytes
                        if unknown && r.expect {
                            e.resps.push(ExpResp { code: 100, body: vec![], user_headers: None, ctype: None, alt: None });
                        }
                        e.resps.push(lib_resp(413, "Uploaded data is too big."));
                        return false;
                    }
                    if r.expect {
                        e.resps.push(ExpResp { code: 100, body: vec![], user_headers: None, ctype: None, alt: None });
                    }
                    ready(e, r.body(), unknown)
                };
                match &r.plan.on_pending {
                    OnPending::Respond => {
                        e.resps.push(plan_resp(&r.plan.resp));
                        false // body unread: the connection cannot be reused
                    }
                    OnPending::GetBody(m) => fetch(&mut e, *m, &mut ready_phase),
                    OnPending::RecvBody(m) => {
                        if !unknown && (*n as u64) > *m {
                            e.resps.push(lib_resp(413, "Uploaded data is too big."));
                            false
                        } else {
                            fetch(&mut e, *m, &mut ready_phase)
                        }
                    }
                    OnPending::Drop => false,
                    OnPending::Panic => {
                        e.resps.push(lib_resp(500, "Server error"));
                        false
                    }
                }
            }
        };
        e.requests_served = i + 1;
        if !goes_on {
            if i + 1 < reqs.len() || !matches!(r.kind, ReqKind::Unknown(_)) {
                e.early_close_at = Some(i);
            }
            break;
        }
    }
    e
}

/// Client script that sends the requests (pipelined or ping-pong), then half-closes
/// and reads to EOF.
pub fn client_for(reqs: &[Req], pipelined: bool, frag: Frag) -> Client {
    let mut ops = vec![Op::Connect];
    let mut finals = 0usize;
    for r in reqs {
        ops.push(Op::Send(r.head()));
        let body = r.body();
        if r.expect && r.wait100 {
            ops.push(Op::Await100);
        }
        if !body.is_empty() {
            ops.push(Op::Send(body));
        }
        finals += 1;
        if matches!(r.kind, ReqKind::Unknown(_)) {
            ops.push(Op::Fin);
        }
        if !pipelined {
            ops.push(Op::AwaitFinal(finals));
        }
    }
    // A pipelining client normally keeps its side open until it has its answers; half of
    // the pipelined clients do (the others half-close right after the last request byte).
    if pipelined && finals > 0 && crate::gen::ratio(1, 2) {
        ops.push(Op::AwaitFinal(finals));
    }
    ops.push(Op::Fin);
    Client::new(ops, frag)
}

fn v(clause: &str, detail: String) -> Option<Violation> {
    Some(Violation {
        clause: clause.to_string(),
        detail,
    })
}

/// Compares one connection's observed handler calls and client transcript with the model.
pub fn check_conn(prop: &str, conn_label: &str, exp: &ConnExpect, calls: &[Call], transcript: &[u8], at_eof: bool) -> Option<Violation> {
    // (i) handler invocations
    for (i, c) in calls.iter().enumerate() {
        match exp.calls.get(i) {
            None => {
                return v(
                    &format!("{prop}.handler_runs"),
                    format!("{conn_label}: unexpected handler run #{i} for {} (pending={}); the model allows {} runs", c.path, c.pending, exp.calls.len()),
                )
            }
            Some(e) => {
                if e.path != c.path {
                    return v(&format!("{prop}.handler_order"), format!("{conn_label}: handler run #{i} saw {} but {} was expected", c.path, e.path));
                }
                if e.pending != c.pending {
                    return v(
                        &format!("{prop}.handler_runs"),
                        format!("{conn_label}: handler run #{i} for {} had pending={} but the model says pending={}", c.path, c.pending, e.pending),
                    );
                }
                if let Some(h) = &e.headers {
                    let mut got = c.headers.clone();
                    got.sort();
                    if &got != h {
                        return v(&format!("{prop}.headers_seen_by_handler"), format!("{conn_label}: {} handler saw header fields {got:?}, the client sent {h:?} (framing fields the library consumes excluded)", c.path));
                    }
                }
                if let Some(m) = &e.meta {
                    if let Some(ct) = &m.ctype {
                        if ct != &c.ctype {
                            return v(&format!("{prop}.request_metadata"), format!("{conn_label}: {} content type {:?}, the header fields give {ct:?}", c.path, c.ctype));
                        }
                    }
                    if let Some(x) = m.expect {
                        if x != c.expect {
                            return v(&format!("{prop}.request_metadata"), format!("{conn_label}: {} expect flag {}, the header fields give {x}", c.path, c.expect));
                        }
                    }
                    if let Some(ck) = &m.cookies {
                        if ck != &c.cookies {
                            return v(&format!("{prop}.request_metadata"), format!("{conn_label}: {} cookies {:?}, the header fields give {ck:?}", c.path, c.cookies));
                        }
                    }
                    if m.chunked != c.chunked || m.gzip != c.gzip {
                        return v(&format!("{prop}.coding_reported"), format!("{conn_label}: {} reported chunked={} gzip={}, the header fields say chunked={} gzip={}", c.path, c.chunked, c.gzip, m.chunked, m.gzip));
                    }
                    if m.content_length != c.content_length {
                        return v(&format!("{prop}.request_metadata"), format!("{conn_label}: {} content_length {:?}, the header fields give {:?}", c.path, c.content_length, m.content_length));
                    }
                }
                if let Some(b) = &e.body {
                    match &c.body {
                        Some(got) if got == b => {}
                        Some(got) => {
                            return v(
                                &format!("{prop}.body_bytes"),
                                format!("{conn_label}: handler run #{i} for {} got a body of {} bytes that differs from the {} bytes sent", c.path, got.len(), b.len()),
                            )
                        }
                        None => return v(&format!("{prop}.body_bytes"), format!("{conn_label}: handler run #{i} for {} could not read its body", c.path)),
                    }
                }
            }
        }
    }
    if calls.len() < exp.calls.len() {
        let e = &exp.calls[calls.len()];
        return v(
            &format!("{prop}.handler_runs"),
            format!("{conn_label}: handler ran {} times, the model expects {} (missing: {} pending={})", calls.len(), exp.calls.len(), e.path, e.pending),
        );
    }
    // (ii) transcript
    let (resps, end) = parse_transcript(transcript);
    if end != End::Clean {
        return v(&format!("{prop}.transcript_wellformed"), format!("{conn_label}: client transcript is not a sequence of complete responses: {end:?}; bytes: {}", gen::show(transcript)));
    }
    for (i, r) in resps.iter().enumerate() {
        match exp.resps.get(i) {
            None => return v(&format!("{prop}.response_count"), format!("{conn_label}: unexpected extra response #{i} with status {}", r.code)),
            Some(e) => {
                if let Some(d) = diff_resp(e, r) {
                    return v(&format!("{prop}.response_content"), format!("{conn_label}: response #{i}: {d}"));
                }
            }
        }
    }
    if resps.len() < exp.resps.len() {
        return v(
            &format!("{prop}.response_count"),
            format!("{conn_label}: client received {} responses, the model expects {} (next expected status {})", resps.len(), exp.resps.len(), exp.resps[resps.len()].code),
        );
    }
    // (iii) the connection ends
    if !at_eof {
        return v(&format!("{prop}.connection_closed"), format!("{conn_label}: at quiescence the server has not closed the connection"));
    }
    None
}

pub fn diff_resp(e: &ExpResp, r: &Resp) -> Option<String> {
    if let Some((code, body)) = &e.alt {
        if r.code == *code {
            let mut e2 = e.clone();
            e2.code = *code;
            e2.body = body.clone();
            e2.alt = None;
            return diff_resp(&e2, r);
        }
    }
    if e.code != r.code {
        return Some(format!("status {} but {} was expected", r.code, e.code));
    }
    if e.user_headers.is_none() {
        // Library-generated response (error page, interim 100): the properties fix its
        // status, not its wording. Only the 5xx close marking is checked besides.
        let close = r.header_all("connection");
        if (500..600).contains(&e.code) && close != vec!["close"] {
            return Some(format!("5xx response without `connection: close` (got {close:?})"));
        }
        return None;
    }
    if e.body != r.body {
        return Some(format!("body differs: got {} bytes {:?}, expected {} bytes", r.body.len(), gen::show(&r.body), e.body.len()));
    }
    match r.framing {
        Framing::ContentLength(n) if n as usize == e.body.len() => {}
        ref f => return Some(format!("framing {f:?} does not match a body of {} bytes", e.body.len())),
    }
    let close = r.header_all("connection");
    let want_close = (500..600).contains(&e.code);
    if want_close && close != vec!["close"] {
        return Some(format!("5xx response without `connection: close` (got {close:?})"));
    }
    if !want_close && !close.is_empty() {
        return Some(format!("unexpected connection header {close:?}"));
    }
    let ct = r.header_all("content-type");
    match e.ctype {
        Some(t) if ct != vec![t] => return Some(format!("content-type {ct:?}, expected {t:?}")),
        None if !ct.is_empty() && e.code != 100 => return Some(format!("unexpected content-type {ct:?}")),
        _ => {}
    }
    if let Some(uh) = &e.user_headers {
        let got: Vec<(String, String)> = r
            .headers
            .iter()
            .filter(|(n, _)| !["content-type", "connection", "content-length", "transfer-encoding"].contains(&n.as_str()))
            .cloned()
            .collect();
        if &got != uh {
            return Some(format!("application header fields {got:?}, expected {uh:?}"));
        }
    }
    None
}

// ---------------------------------------------------------------------------- generators

pub fn gen_resp_spec(codes: &[u16]) -> RespSpec {
    let code = gen::pick(codes);
    let body_len = match gen::below(4) {
        0 => 0,
        1 => gen::range(1, 16) as usize,
        2 => gen::range(1, 300) as usize,
        _ => gen::range(1, 3000) as usize,
    };
    let nh = gen::below(3);
    let headers = (0..nh).map(|i| (format!("x-h{i}"), format!("v{}", gen::below(100)))).collect();
    RespSpec {
        code,
        body_len,
        body_seed: gen::seed32(),
        ctype: gen::below(5) as u8,
        headers,
    }
}
