//! C01 - request reading is total: any byte stream gives a request or a classified error.

use crate::engine::handler::{self, Plan};
use crate::engine::server::{Client, Engine, Frag, NoExtras, Op, ServerCfg};
use crate::engine::stream::{drive, Drive, Pieces, ScriptReader, StreamEnd};
use crate::gen;
use crate::oracle::http::{parse_transcript, End};
use crate::run::{Outcome, RunCfg, Scenario, Tier};
use crate::spec::{components_stream, PropertySpec};
use fixed_buffer::FixedBuf;
use serde_json::json;
use servlin::internal::{read_http_head, read_http_request, HttpError};
use sim_core::with;
use std::net::{IpAddr, Ipv4Addr, SocketAddr};

const TCHARS: &[u8] = b"!#$%&'*+-.^_`|~0123456789abcdefghijklmnopqrstuvwxyzABCDEFGHIJKLMNOPQRSTUVWXYZ";

fn tchar() -> u8 {
    TCHARS[gen::below(TCHARS.len() as u32) as usize]
}

/// A head derived from the RFC 7230 section 3 grammar (with the liberties real clients take).
pub fn gen_head(max_fields: u32) -> Vec<u8> {
    let mut h = Vec::new();
    // method
    match gen::below(4) {
        0 => h.extend_from_slice(gen::pick(&[&b"GET"[..], b"POST", b"PUT", b"M", b"DELETE"])),
        _ => {
            for _ in 0..1 + gen::below(8) {
                h.push(tchar());
            }
        }
    }
    h.push(b' ');
    // target
    h.push(b'/');
    for _ in 0..gen::below(12) {
        let c = match gen::below(12) {
            0 => b'/',
            1 => b'?',
            2 => b'%',
            3 => b'=',
            4 => b'&',
            5 => 0x80 + gen::below(0x80) as u8,
            6 => b'#',
            _ => b'a' + gen::below(26) as u8,
        };
        h.push(c);
    }
    h.push(b' ');
    h.extend_from_slice(match gen::below(12) {
        0 => b"HTTP/1.0",
        1 => b"HTTP/2",
        2 => b"http/1.1",
        _ => b"HTTP/1.1",
    });
    let nf = match gen::below(4) {
        0 => 0,
        1 => 1,
        2 => gen::below(6),
        _ => gen::below(max_fields + 1),
    };
    let eol = |h: &mut Vec<u8>| {
        if gen::ratio(1, 10) {
            h.push(b'\n');
        } else {
            h.extend_from_slice(b"\r\n");
        }
    };
    eol(&mut h);
    for _ in 0..nf {
        if gen::ratio(1, 8) {
            // a long line (40-200 bytes), valid or not, with multi-byte UTF-8 sequences and
            // stray high bytes at drawn positions: anything that cuts, pads or renders a
            // line at a fixed byte offset must cope with every alignment
            let with_colon = gen::ratio(2, 3);
            if with_colon {
                for _ in 0..1 + gen::below(8) {
                    h.push(tchar());
                }
                h.push(b':');
            }
            let target = 40 + gen::below(160) as usize;
            let start = h.len();
            while h.len() - start < target {
                match gen::below(8) {
                    0 => h.extend_from_slice("\u{e9}".as_bytes()),
                    1 => h.extend_from_slice("\u{20ac}".as_bytes()),
                    2 => h.extend_from_slice("\u{1f600}".as_bytes()),
                    3 => h.push(0x80 + gen::below(0x80) as u8),
                    _ => h.push(0x21 + gen::below(0x7e - 0x21 + 1) as u8),
                }
            }
            eol(&mut h);
            continue;
        }
        match gen::below(10) {
            0 => h.extend_from_slice(gen::pick(&[&b"content-length"[..], b"transfer-encoding", b"cookie", b"expect", b"content-type", b"Content-Length"])),
            _ => {
                for _ in 0..1 + gen::below(10) {
                    h.push(tchar());
                }
            }
        }
        h.push(b':');
        for _ in 0..gen::below(3) {
            h.push(gen::pick(&[b' ', b'\t']));
        }
        for _ in 0..gen::below(16) {
            let c = match gen::below(16) {
                0 => b' ',
                1 => b'\t',
                2 => 0x80 + gen::below(0x80) as u8, // obs-text
                3 => b':',
                4 => b'=',
                5 => b';',
                6 => b',',
                _ => 0x21 + gen::below(0x7e - 0x21 + 1) as u8,
            };
            h.push(c);
        }
        for _ in 0..gen::below(3) {
            h.push(gen::pick(&[b' ', b'\t']));
        }
        eol(&mut h);
    }
    h.extend_from_slice(b"\r\n");
    // the last line end must be CRLF for the CRLFCRLF terminator to exist in most cases
    h
}

/// First bytes of other protocols that reach an HTTP port in practice. A reader that
/// special-cases any of them must still end in a documented outcome.
const FOREIGN_PREFIXES: [&[u8]; 10] = [
    b"\x16\x03\x01\x02\x00\x01\x00\x01\xfc\x03\x03", // TLS 1.x ClientHello
    b"\x16\x03\x03\x00\x7a\x01\x00\x00\x76\x03\x03",
    b"\x16\x03\x00\x00\x2f\x01",
    b"PRI * HTTP/2.0\r\n\r\nSM\r\n\r\n", // HTTP/2 preface
    b"SSH-2.0-OpenSSH_9.6\r\n",
    b"\x05\x01\x00", // SOCKS5
    b"\x04\x01\x00\x50", // SOCKS4
    b"\x80\x2e\x01\x00\x02", // SSLv2 hello
    b"PROXY TCP4 192.0.2.1 192.0.2.2 1 2\r\n", // PROXY protocol v1
    b"\r\n\r\n\x00\r\nQUIT\n", // PROXY protocol v2
];

pub fn mutate(h: &mut Vec<u8>) {
    if gen::ratio(1, 40) {
        let p = gen::pick(&FOREIGN_PREFIXES);
        if gen::ratio(1, 2) {
            let mut v = p.to_vec();
            v.extend_from_slice(h);
            *h = v;
        } else {
            *h = p.to_vec();
            h.extend_from_slice(b"\r\n\r\n");
        }
        gen::count("probe.foreign_protocol_prefix");
        return;
    }
    let n = gen::below(4);
    let special = [b'\r', b'\n', b' ', b':', 0u8, 0x80, 0xff, b'\t'];
    for _ in 0..n {
        if h.is_empty() {
            h.push(gen::pick(&special));
            continue;
        }
        let pos = gen::below(h.len() as u32) as usize;
        let byte = if gen::ratio(1, 2) { gen::pick(&special) } else { gen::below(256) as u8 };
        match gen::below(3) {
            0 => h[pos] = byte,
            1 => h.insert(pos, byte),
            _ => {
                h.remove(pos);
            }
        }
    }
}

fn find_term(b: &[u8]) -> Option<usize> {
    (0..b.len().saturating_sub(3)).find(|&i| &b[i..i + 4] == b"\r\n\r\n")
}

#[derive(Clone, Debug, PartialEq, Eq)]
struct Observed {
    /// Rendered result (request fields except id, or the error).
    result: String,
    is_ok: bool,
    err: Option<HttpError>,
    /// buffered-but-unconsumed bytes followed by what the stream still holds
    leftover: Vec<u8>,
    consumed: usize,
}

fn addr() -> SocketAddr {
    SocketAddr::new(IpAddr::V4(Ipv4Addr::LOCALHOST), 1)
}

fn render_req(r: &servlin::Request) -> String {
    let mut cookies: Vec<String> = r.cookies.iter().map(|(k, v)| format!("{k}={v}")).collect();
    cookies.sort();
    format!(
        "Ok method={:?} url={:?} headers={:?} cookies={:?} ctype={:?} expect={} chunked={} gzip={} cl={:?} body={:?}",
        r.method,
        r.url.as_str(),
        r.headers.iter().map(|h| format!("{}:{}", h.name, h.value)).collect::<Vec<_>>(),
        cookies,
        r.content_type,
        r.expect_continue,
        r.chunked,
        r.gzip,
        r.content_length,
        r.body
    )
}

/// One execution of the reader under test over `input[..end_at]` with the given partition.
fn observe<const N: usize>(input: &[u8], end_at: usize, end: StreamEnd, pieces: Pieces, pending_64: u32, whole_request: bool) -> Result<Observed, Outcome> {
    let mut buf: FixedBuf<N> = FixedBuf::new();
    let mut rd = ScriptReader::new(input.to_vec(), pieces);
    rd.end_at = end_at;
    rd.end = end;
    rd.pending_64 = pending_64;
    let cap = (input.len() + N) as u64 * 4 + 64;
    let (result, is_ok, err) = if whole_request {
        match drive(read_http_request(addr(), &mut buf, &mut rd), cap) {
            Drive::Done(Ok(r), _) => (render_req(&r), true, None),
            Drive::Done(Err(e), _) => (format!("Err {e:?}"), false, Some(e)),
            Drive::Stalled(p) => return Err(Outcome::fail("C01.terminates", format!("reader returned Pending without a wake-up after {p} polls"))),
            Drive::Cap(p) => return Err(Outcome::fail("C01.terminates", format!("no result after {p} polls for {} input bytes: it loops", input.len()))),
            Drive::Panicked(m) => return Err(Outcome::fail("C01.no_panic", format!("{m}; input: {}", gen::show(&input[..end_at])))),
        }
    } else {
        match drive(read_http_head(&mut buf, &mut rd), cap) {
            Drive::Done(Ok(h), _) => (
                format!("Ok method={:?} url={:?} headers={:?}", h.method, h.url.as_str(), h.headers.iter().map(|x| format!("{}:{}", x.name, x.value)).collect::<Vec<_>>()),
                true,
                None,
            ),
            Drive::Done(Err(e), _) => (format!("Err {e:?}"), false, Some(e)),
            Drive::Stalled(p) => return Err(Outcome::fail("C01.terminates", format!("reader returned Pending without a wake-up after {p} polls"))),
            Drive::Cap(p) => return Err(Outcome::fail("C01.terminates", format!("no result after {p} polls for {} input bytes: it loops", input.len()))),
            Drive::Panicked(m) => return Err(Outcome::fail("C01.no_panic", format!("{m}; input: {}", gen::show(&input[..end_at])))),
        }
    };
    let mut leftover = buf.readable().to_vec();
    leftover.extend_from_slice(rd.remaining());
    let consumed = end_at - leftover.len().min(end_at);
    Ok(Observed { result, is_ok, err, leftover, consumed })
}

fn documented(e: &HttpError, whole_request: bool) -> bool {
    use HttpError::*;
    matches!(e, Truncated | Disconnected | HeadTooLong | MissingRequestLine | MalformedRequestLine | MalformedPath | UnsupportedProtocol | MalformedHeaderLine)
        || (whole_request && matches!(e, UnsupportedTransferEncoding | MalformedCookieHeader | InvalidContentLength))
}

/// All clauses for one (input, end) pair at buffer size N.
fn check_case<const N: usize>(input: &[u8], end_at: usize, end: StreamEnd, whole_request: bool, partitions: &[Pieces]) -> Option<Outcome> {
    let reference = match observe::<N>(input, end_at, end.clone(), Pieces::Whole, 0, whole_request) {
        Ok(o) => o,
        Err(o) => return Some(o),
    };
    // outcome class
    if let Some(e) = &reference.err {
        if !documented(e, whole_request) {
            return Some(Outcome::fail("C01.documented_outcome", format!("undocumented error {e:?} for input {}", gen::show(&input[..end_at]))));
        }
    }
    // consumption model: p = first CRLFCRLF
    let stream = &input[..end_at];
    let p = find_term(&stream[..stream.len().min(N)]);
    match p {
        Some(p) => {
            if matches!(reference.err, Some(HttpError::Truncated | HttpError::Disconnected | HttpError::HeadTooLong)) {
                return Some(Outcome::fail(
                    "C01.head_found",
                    format!("a complete head of {} bytes fits the {N}-byte buffer but the result is {:?}", p + 4, reference.err),
                ));
            }
            if reference.consumed > p + 4 {
                return Some(Outcome::fail("C01.consumes_only_head", format!("{} bytes consumed, the head ends at {}", reference.consumed, p + 4)));
            }
            if reference.is_ok && reference.consumed != p + 4 {
                return Some(Outcome::fail("C01.consumes_only_head", format!("parsed a request but consumed {} bytes, the head is {} bytes", reference.consumed, p + 4)));
            }
            if reference.leftover != stream[reference.consumed..] {
                return Some(Outcome::fail("C01.leftover_intact", "bytes after the head are not available unchanged for the next message".to_string()));
            }
        }
        None => {
            // "head larger than the head buffer" vs "premature end of stream" (the latter has
            // two documented spellings, Disconnected and Truncated; which one is used for an
            // empty stream is not part of the property)
            let ok = if stream.len() >= N {
                reference.err == Some(HttpError::HeadTooLong)
            } else {
                matches!(reference.err, Some(HttpError::Truncated | HttpError::Disconnected))
            };
            if !ok {
                return Some(Outcome::fail(
                    "C01.end_of_stream_class",
                    format!("no head terminator within {} received bytes (buffer {N}): expected {}, got {}", stream.len(), if stream.len() >= N { "HeadTooLong" } else { "a premature-end-of-stream error" }, reference.result),
                ));
            }
        }
    }
    // split independence
    for part in partitions {
        let o = match observe::<N>(input, end_at, end.clone(), part.clone(), if gen::ratio(1, 3) { 16 } else { 0 }, whole_request) {
            Ok(o) => o,
            Err(o) => return Some(o),
        };
        if o.result != reference.result || o.leftover != reference.leftover {
            return Some(Outcome::fail(
                "C01.split_independent",
                format!("partition {part:?} gives {} (consumed {}), one read gives {} (consumed {}); input {}", o.result, o.consumed, reference.result, reference.consumed, gen::show(stream)),
            ));
        }
    }
    None
}

fn dispatch(n: usize, input: &[u8], end_at: usize, end: StreamEnd, whole: bool, parts: &[Pieces]) -> Option<Outcome> {
    match n {
        64 => check_case::<64>(input, end_at, end, whole, parts),
        256 => check_case::<256>(input, end_at, end, whole, parts),
        _ => check_case::<8192>(input, end_at, end, whole, parts),
    }
}

fn partitions_for(len: usize, exhaustive_double: bool) -> Vec<Pieces> {
    let mut v = Vec::new();
    if len <= 24 || (exhaustive_double && len <= 64) {
        for s in 1..len {
            v.push(Pieces::List(vec![s, len]));
        }
        if exhaustive_double && len <= 40 {
            for a in 1..len {
                for b in 1..(len - a) {
                    v.push(Pieces::List(vec![a, b, len]));
                }
            }
        }
    } else if len <= 700 {
        v.push(Pieces::List(vec![1]));
        v.push(Pieces::Random(8));
        v.push(Pieces::Random(len));
    } else {
        // the reader re-scans its buffer after every read: byte-wise delivery of an
        // 8 KiB head costs tens of milliseconds, so long inputs get coarser partitions
        v.push(Pieces::Random(700));
        v.push(Pieces::Random(len));
    }
    v
}

/// Grammar-derived heads, mutations, leftovers; EOF/error at drawn or all offsets.
fn generated(cfg: &RunCfg) -> Outcome {
    let n = gen::pick(&[64usize, 256, 8192]);
    let mut input = gen_head(if n == 64 { 2 } else { 40 });
    if gen::ratio(1, 2) {
        mutate(&mut input);
    }
    if gen::ratio(1, 8) {
        // over-long head: pad to around the buffer size
        let target = n - 2 + gen::below(8) as usize;
        if input.len() < target && input.len() >= 4 {
            let at = input.len() - 4;
            let pad: Vec<u8> = std::iter::once(b'x').chain(std::iter::once(b':')).chain(std::iter::repeat(b'p').take(target - input.len())).chain(*b"\r\n").collect();
            for (i, b) in pad.iter().enumerate() {
                input.insert(at + 2 + i, *b);
            }
        }
    }
    let head_len = input.len();
    for _ in 0..gen::below(65) {
        input.push(gen::below(256) as u8);
    }
    let whole = gen::ratio(1, 2);
    // the exhaustive double-split / every-prefix sweep costs ~10^4 executions per input: it is
    // applied to one input in eight in the thorough tier
    let thorough = cfg.tier == Tier::Thorough && cfg.index % 8 == 0;
    // end-of-stream offsets
    let mut ends: Vec<usize> = vec![input.len()];
    if input.len() <= if thorough { 256 } else { 48 } {
        ends.extend(0..input.len());
    } else {
        for _ in 0..3 {
            ends.push(gen::below(input.len() as u32 + 1) as usize);
        }
        ends.push(head_len.saturating_sub(1));
        ends.push(head_len.min(input.len()));
    }
    let mut cases = 0u64;
    for end_at in ends {
        let end = if gen::ratio(1, 3) { StreamEnd::Error(gen::read_error_kind()) } else { StreamEnd::Eof };
        if matches!(end, StreamEnd::Error(_)) {
            gen::count("fault.read_error_at_offset");
        } else if end_at < input.len() {
            gen::count("fault.eof_at_offset");
        }
        let parts = partitions_for(end_at, thorough);
        cases += 1 + parts.len() as u64;
        if let Some(o) = dispatch(n, &input, end_at, end, whole, &parts) {
            return o;
        }
    }
    gen::count("probe.generated_case");
    with(|w| w.count_n("probe.executions", cases));
    Outcome {
        nontrivial: true,
        case_hash: sim_core::tape::fnv1a(&input) ^ n as u64,
        sample: if cfg.index < 2 { Some(json!({"buffer": n, "input": gen::show(&input), "whole_request": whole})) } else { None },
        ..Default::default()
    }
}

/// Several messages through ONE buffer: every head smaller than the buffer must parse
/// exactly as it does alone in a fresh buffer, whatever was buffered before it.
fn sequence_case<const N: usize>(cfg: &RunCfg) -> Outcome {
    use futures_lite::AsyncReadExt;
    use servlin::internal::read_http_body_to_vec;
    use servlin::RequestBody;
    let k = 2 + gen::below(if N <= 256 { 30 } else { 14 }) as usize;
    let mut msgs: Vec<(Vec<u8>, Vec<u8>)> = Vec::new();
    let mut stream = Vec::new();
    for i in 0..k {
        let body_len = if gen::ratio(1, 2) { 0 } else { gen::below(if gen::ratio(1, 6) { 3 * N as u32 } else { 40 }) as usize };
        let pad = gen::below((N as u32).saturating_sub(90).max(1)) as usize;
        let mut head = format!("POST /s{i} HTTP/1.1\r\n").into_bytes();
        if pad > 0 {
            head.extend_from_slice(format!("x-pad: {}\r\n", "p".repeat(pad)).as_bytes());
        }
        if body_len > 0 {
            head.extend_from_slice(format!("content-length: {body_len}\r\n").as_bytes());
        } else {
            head.extend_from_slice(b"content-length: 0\r\n");
        }
        head.extend_from_slice(b"\r\n");
        if head.len() > N {
            head = format!("POST /s{i} HTTP/1.1\r\ncontent-length: 0\r\n\r\n").into_bytes();
            msgs.push((head.clone(), Vec::new()));
            stream.extend_from_slice(&head);
            continue;
        }
        let body = sim_core::tape::content(i as u32, body_len);
        stream.extend_from_slice(&head);
        stream.extend_from_slice(&body);
        msgs.push((head, body));
    }
    // reference: each head alone in a fresh buffer
    let mut alone = Vec::new();
    for (h, _) in &msgs {
        match observe::<N>(h, h.len(), StreamEnd::Eof, Pieces::Whole, 0, true) {
            Ok(o) => alone.push(o.result),
            Err(o) => return o,
        }
    }
    let mut buf: FixedBuf<N> = FixedBuf::new();
    let mut rd = ScriptReader::new(stream.clone(), match gen::below(4) {
        0 => Pieces::Whole,
        1 => Pieces::Random(if N <= 256 { 7 } else { 300 }),
        2 => Pieces::Random(N / 3 + 1),
        _ => Pieces::Random(2 * N),
    });
    rd.pending_64 = gen::pick(&[0u32, 0, 8]);
    for (i, (h, body)) in msgs.iter().enumerate() {
        let cap = (stream.len() + N) as u64 * 4 + 64;
        let r = match drive(read_http_request(addr(), &mut buf, &mut rd), cap) {
            Drive::Done(r, _) => r,
            Drive::Stalled(p) | Drive::Cap(p) => return Outcome::fail("C01.terminates", format!("message {i} of a sequence: no result after {p} polls")),
            Drive::Panicked(m) => return Outcome::fail("C01.no_panic", m),
        };
        let got = match &r {
            Ok(req) => render_req(req),
            Err(e) => format!("Err {e:?}"),
        };
        if got != alone[i] {
            return Outcome::fail(
                "C01.same_outcome_in_sequence",
                format!("message {i} of {k} (head {} bytes, buffer {N}) parses as {} after earlier traffic, but as {} alone", h.len(), got.chars().take(120).collect::<String>(), alone[i].chars().take(120).collect::<String>()),
            );
        }
        if let Ok(req) = r {
            if let RequestBody::PendingKnown(n) = req.body {
                let b = match drive(read_http_body_to_vec((&mut buf).chain(&mut rd), n as usize), cap * 4) {
                    Drive::Done(b, _) => b,
                    _ => return Outcome::fail("C01.terminates", format!("body of message {i} never completes")),
                };
                match b {
                    Ok(RequestBody::Vec(v)) if &v == body => {}
                    other => return Outcome::fail("C01.leftover_intact", format!("body of message {i} differs from the bytes sent: {other:?}")),
                }
            }
        }
    }
    if stream.len() > N {
        gen::count("probe.sequence_longer_than_buffer");
    }
    Outcome { nontrivial: true, case_hash: sim_core::tape::fnv1a(&stream), sample: if cfg.index < 1 { Some(json!({"messages": k, "stream_bytes": stream.len(), "buffer": N})) } else { None }, ..Default::default() }
}

fn sequence(cfg: &RunCfg) -> Outcome {
    if gen::ratio(1, 2) {
        sequence_case::<256>(cfg)
    } else {
        sequence_case::<8192>(cfg)
    }
}

const ALPHABET: [&[u8]; 8] = [b"M", b" ", b"/", b":", b"\r", b"\n", b"\x80", b"HTTP/1.1"];

/// Every string of up to 6 symbols over the reduced alphabet, with and without the head
/// terminator appended. Index i enumerates them in base 8 by length.
fn corpus(cfg: &RunCfg) -> Outcome {
    // decode index -> (len, digits)
    let mut idx = cfg.index;
    let mut len = 0usize;
    let mut block = 1u64;
    while idx >= block {
        idx -= block;
        block *= 8;
        len += 1;
    }
    let mut s = Vec::new();
    for _ in 0..len {
        s.extend_from_slice(ALPHABET[(idx % 8) as usize]);
        idx /= 8;
    }
    for (variant, whole) in [(0, false), (1, true)] {
        let mut input = s.clone();
        if variant == 1 || len > 0 {
            input.extend_from_slice(b"\r\n\r\n");
        }
        let parts = if input.len() <= 12 { partitions_for(input.len(), false) } else { vec![Pieces::List(vec![1])] };
        if let Some(o) = dispatch(64, &input, input.len(), StreamEnd::Eof, whole, &parts) {
            return o;
        }
    }
    // and the bare string, cut by EOF
    if let Some(o) = dispatch(64, &s, s.len(), StreamEnd::Eof, false, &[]) {
        return o;
    }
    Outcome {
        nontrivial: len > 0,
        case_hash: cfg.index,
        sample: if cfg.index == 299_000 { Some(json!({"corpus_string": gen::show(&s)})) } else { None },
        ..Default::default()
    }
}

/// The same bytes through the connection task: response or EOF, no panic, slot returned.
fn conn_level(cfg: &RunCfg) -> Outcome {
    let scfg = ServerCfg { max_conns: 1, small_body_len: 64, cache_dir: None, with_permit: false };
    with(|w| {
        w.net.knobs.short_io = w.tape.ratio(1, 2);
        w.net.knobs.spurious_pending_64 = *w.tape.pick(&[0u32, 8]);
    });
    let mut eng = match Engine::start(scfg) {
        Ok(e) => e,
        Err(e) => return Outcome { harness_error: Some(e), ..Default::default() },
    };
    handler::HANDLER.with(|h| h.borrow_mut().default_plan = Some(Plan::respond(200)));
    let mut input = gen_head(12);
    if gen::ratio(2, 3) {
        mutate(&mut input);
    }
    for _ in 0..gen::below(20) {
        input.push(gen::below(256) as u8);
    }
    let cut = if gen::ratio(1, 2) { input.len() } else { gen::below(input.len() as u32 + 1) as usize };
    let mut ops = vec![Op::Connect, Op::Send(input[..cut].to_vec())];
    match gen::below(3) {
        0 => ops.push(Op::Fin),
        1 => {
            ops.push(Op::Pause(1 + gen::below(6)));
            ops.push(Op::Rst)
        }
        _ => {
            ops.push(Op::Pause(1 + gen::below(6)));
            ops.push(Op::Fin)
        }
    }
    eng.add_client(Client::new(ops, gen::pick(&[Frag::Whole, Frag::Random, Frag::Byte])));
    // a second client proves the slot came back (max_conns = 1)
    eng.add_client(Client::new(vec![Op::Pause(3), Op::Connect, Op::Send(b"GET /probe HTTP/1.1\r\n\r\n".to_vec()), Op::AwaitFinal(1), Op::Fin], Frag::Whole));
    eng.run(&mut NoExtras);
    if eng.hit_cap {
        return Outcome::fail("C01.terminates", "connection task never quiesces");
    }
    if let Some(p) = eng.sut_panics().first() {
        return Outcome::fail("C01.task_survives", format!("{p}; client sent {}", gen::show(&input[..cut])));
    }
    let c0 = &eng.clients[0];
    let reset = c0.conn.map(|c| with(|w| w.client_saw_reset(c))).unwrap_or(false);
    if !reset {
        let (_r, end) = parse_transcript(&c0.received);
        if !matches!(end, End::Clean) {
            return Outcome::fail("C01.response_or_eof", format!("client received neither a well-formed response nor nothing: {end:?} {}", gen::show(&c0.received)));
        }
        if let Some(c) = c0.conn {
            if !with(|w| w.client_at_eof(c)) {
                return Outcome::fail("C01.connection_ends", "after the client's FIN the server never closed the connection".to_string());
            }
        }
    }
    let probe = &eng.clients[1];
    let (pr, _) = parse_transcript(&probe.received);
    if pr.len() != 1 || pr[0].code != 200 {
        return Outcome::fail("C01.slot_returned", format!("after the first connection ended, a second client was not served (max_conns=1): {}", gen::show(&probe.received)));
    }
    Outcome { nontrivial: true, sample: if cfg.index < 1 { Some(json!({"sent": gen::show(&input[..cut])})) } else { None }, ..Default::default() }
}

pub fn spec() -> PropertySpec {
    PropertySpec {
        id: "C01",
        level: "exploration",
        rule: "read_http_head / read_http_request over a scripted AsyncRead with FixedBuf<64|256|8192>. Inputs: heads derived from the RFC 7230 grammar (all tchar, obs-text, OWS variants, bare LF), 0-3 byte-level mutations, over-long heads around the buffer size, 0-64 leftover bytes; corpus stage: EVERY string of <= 6 symbols over {M, SP, /, :, CR, LF, 0x80, HTTP/1.1} (299,593 strings, with and without terminator). Schedules: every single split point (inputs <= 24 bytes; all double splits too in the thorough tier), 1-byte reads and tape-chosen partitions otherwise, spurious Pending; end of stream (EOF or read error) after every prefix for short inputs, at drawn offsets otherwise. Oracle: termination within a poll cap, no panic, documented error class, position-of-first-CRLFCRLF consumption model (nothing past the head consumed, leftover intact, HeadTooLong/Truncated/Disconnected classes), identical outcome and leftover under every partition. Sequence stage: 2-32 messages with padded heads (each smaller than the buffer) and bodies through ONE buffer: each must parse exactly as it does alone in a fresh buffer. Connection level: same bytes through the real connection task in the simulated server, FIN or RST at an offset: response-or-EOF, no task panic, slot returned. distinct = hash of input bytes; probe.executions counts individual reader executions.",
        scenarios: vec![
            Scenario { name: "c01.generated", property: "C01", func: generated, runs_quick: 400_000, runs_thorough: 2_400_000, doc: "grammar + mutation" },
            Scenario { name: "c01.corpus", property: "C01", func: corpus, runs_quick: 299_593, runs_thorough: 299_593, doc: "exhaustive reduced alphabet" },
            Scenario { name: "c01.sequence", property: "C01", func: sequence, runs_quick: 60_000, runs_thorough: 2_000_000, doc: "several messages through one buffer" },
            Scenario { name: "c01.conn", property: "C01", func: conn_level, runs_quick: 100_000, runs_thorough: 3_000_000, doc: "connection task level" },
        ],
        required_probes: vec!["probe.generated_case", "fault.eof_at_offset", "fault.read_error_at_offset", "fault.client_rst", "probe.sequence_longer_than_buffer"],
        components: components_stream(),
        assumptions: vec!["FixedBuf is trusted", "heads longer than the buffer + 64 bytes of slack are not generated"],
    }
}
