//! C10 - upload temp files never outlive their request.

use super::httpgen::{Req, ReqKind};
use crate::engine::handler::{self, OnPending, OnReady, Plan, RespSpec};
use crate::engine::server::{Act, Client, Engine, Extras, Frag, Op, ServerCfg};
use crate::gen;
use crate::run::{Outcome, RunCfg, Scenario, Violation};
use crate::spec::{components_server, PropertySpec};
use crate::util::{list_dir, RunDir};
use serde_json::json;
use sim_core::with;
use std::io::ErrorKind;
use std::path::PathBuf;

struct Faults {
    dir: PathBuf,
    steps: u64,
    remove_dir_at: Option<u64>,
    cancel_at: Option<u64>,
    revoke_at: Option<u64>,
    max_files_seen: usize,
    dir_removed: bool,
    /// a connection task was cancelled by the harness: only then can a handler job outlive
    /// its connection (the job owns the request and its file until it returns)
    cancelled: bool,
}
impl Extras for Faults {
    fn enabled(&mut self, eng: &Engine) -> Vec<u32> {
        let mut v = Vec::new();
        if let Some(t) = self.remove_dir_at {
            if self.steps >= t {
                v.push(0);
            }
        }
        if let Some(t) = self.cancel_at {
            if self.steps >= t && with(|w| w.tasks.keys().any(|k| *k >= 2)) {
                v.push(1);
            }
        }
        if let Some(t) = self.revoke_at {
            if self.steps >= t && eng.permit.is_some() {
                v.push(2);
            }
        }
        v
    }
    fn step(&mut self, eng: &mut Engine, id: u32) {
        match id {
            0 => {
                let _ = std::fs::remove_dir_all(&self.dir);
                self.remove_dir_at = None;
                self.dir_removed = true;
                with(|w| {
                    w.count("fault.cache_dir_removed");
                    w.note("cache dir removed");
                });
            }
            1 => {
                // cancel one connection task (never the accept loop, task 1)
                let victims: Vec<u64> = with(|w| w.tasks.keys().copied().filter(|k| *k >= 2).collect());
                if !victims.is_empty() {
                    let t = victims[gen::below(victims.len() as u32) as usize];
                    sim_core::cancel_task(t);
                    self.cancelled = true;
                    gen::count("fault.task_cancelled");
                }
                self.cancel_at = None;
            }
            _ => {
                eng.revoke();
                self.revoke_at = None;
                gen::count("fault.permit_revoked_mid_upload");
            }
        }
    }
    fn after_step(&mut self, _eng: &mut Engine, _act: Act) -> Option<Violation> {
        self.steps += 1;
        // Per-step invariant: every file in the cache dir belongs to a request that is
        // still being received or handled.
        let files = list_dir(&self.dir);
        if files.len() > self.max_files_seen {
            self.max_files_seen = files.len();
        }
        if !files.is_empty() {
            // The server keeps a connection open for as long as its request is being received
            // or handled, so a file needs an open connection - or, after an injected task
            // cancellation, a handler job that is still running.
            let cancelled = self.cancelled;
            let holders = with(|w| w.net.conns.iter().filter(|c| c.accepted && !c.server_closed).count() + if cancelled { w.jobs.len() } else { 0 });
            // (An implementation may use more than one file per request, so only the
            // absence of ANY live request makes a file an orphan at this point.)
            if holders == 0 {
                return Some(Violation {
                    clause: "C10.file_has_live_request".into(),
                    detail: format!("{} file(s) {:?} in the cache dir although the server holds no open connection any more (the request was answered or abandoned; a handler still running for it does not keep the request alive)", files.len(), files),
                });
            }
        }
        None
    }
}

fn offset_class(l: usize) -> usize {
    let c = [0usize, 1, l / 2, 8191, 8192, 8193, 65_535, 65_536, 65_537, l.saturating_sub(1), l, l + 1];
    let v = gen::pick(&c);
    v.min(l)
}

fn scenario(cfg: &RunCfg) -> Outcome {
    let dir = RunDir::new("c10");
    let cache = dir.path.join("cache");
    std::fs::create_dir_all(&cache).unwrap();
    let s = 64usize;
    let max_conns = 1 + gen::below(4) as usize;
    let with_permit = gen::ratio(1, 4);
    let scfg = ServerCfg { max_conns, small_body_len: s, cache_dir: Some(cache.clone()), with_permit };
    with(|w| {
        w.net.knobs.sock_cap = *w.tape.pick(&[262_144usize, 8192, 512]);
        w.net.knobs.short_io = w.tape.ratio(1, 2);
        w.net.knobs.spurious_pending_64 = *w.tape.pick(&[0u32, 0, 6]);
        w.fs.short_io = w.tape.ratio(1, 2);
        w.fs.spurious_pending_64 = *w.tape.pick(&[0u32, 8]);
    });
    let mut eng = match Engine::start(scfg) {
        Ok(e) => e,
        Err(e) => return Outcome { harness_error: Some(e), ..Default::default() },
    };
    eng.step_cap = 2_000_000;
    eng.weights.extra = 1;
    eng.weights.job_finish = gen::pick(&[1u32, 4, 12]);
    let nclients = 1 + gen::below(4) as usize;
    let mut descr = Vec::new();
    let mut disk_fault_idx = 0usize;
    for c in 0..nclients {
        let big = gen::ratio(1, 6);
        // (one upload in thirty spans many copy blocks: 0.3 - 0.7 MB)
        let l = if gen::ratio(1, 30) {
            300_000 + gen::below(400_000) as usize
        } else if big {
            60_000 + gen::below(90_000) as usize
        } else {
            s + 1 + gen::below(3000) as usize
        };
        let declared = gen::ratio(1, 2);
        let kind = if declared { ReqKind::Known(l) } else { ReqKind::Unknown(l) };
        let m: u64 = match gen::below(5) {
            0 => (l as u64).saturating_sub(1 + u64::from(gen::below(20))), // over the limit
            1 => l as u64,
            _ => l as u64 + 1000,
        };
        let on_ready = match gen::weighted(&[5, 2, 2, 2, 2]) {
            0 => OnReady::Respond,
            1 => OnReady::Drop,
            2 => OnReady::Panic,
            3 => OnReady::GetBodyAgain(m),
            // the application keeps a clone of the request body after answering
            _ => OnReady::RespondKeepingClone,
        };
        let code = if gen::ratio(1, 4) { 500 } else { 200 };
        let r = Req {
            path: format!("/u{c}"),
            method: "POST".into(),
            kind,
            expect: gen::ratio(1, 6),
            wait100: false,
            body_seed: gen::seed32(),
            plan: Plan { on_pending: OnPending::GetBody(m), on_ready, resp: RespSpec { code, body_len: 2, body_seed: 3, ctype: 1, headers: vec![] } },
            extra_headers: vec![],
            raw_head: None,
            raw_body: None,
            meta: None,
        };
        handler::set_plan(&r.path, r.plan.clone());
        // how the upload ends on the client side
        let body = r.body();
        let mut ops = vec![Op::Connect, Op::Send(r.head())];
        let ending = gen::weighted(&[4, 3, 3, 2]);
        let cut = offset_class(l);
        match ending {
            0 => {
                // completes
                ops.push(Op::Send(body.clone()));
                ops.push(Op::Fin);
                ops.push(Op::AwaitFinal(1));
                ops.push(Op::Close);
            }
            1 => {
                ops.push(Op::Send(body[..cut].to_vec()));
                ops.push(Op::Pause(1 + gen::below(10)));
                ops.push(Op::Rst);
                gen::count("fault.client_rst_mid_upload");
            }
            2 => {
                ops.push(Op::Send(body[..cut].to_vec()));
                ops.push(Op::Pause(1 + gen::below(10)));
                ops.push(Op::Fin);
                ops.push(Op::AwaitFinal(1));
                ops.push(Op::Close);
                gen::count("fault.client_fin_mid_upload");
            }
            _ => {
                // stall, then close abruptly
                ops.push(Op::Send(body[..cut].to_vec()));
                ops.push(Op::Pause(5 + gen::below(30)));
                ops.push(Op::Close);
                gen::count("fault.client_close_mid_upload");
            }
        }
        let mut cl = Client::new(ops, gen::pick(&[Frag::Whole, Frag::Random, Frag::Random]));
        cl.slow_read = gen::ratio(1, 4);
        eng.add_client(cl);
        // disk faults on the file this upload will create (creation order is not known in
        // advance, so faults are attached to creation indices)
        if gen::ratio(1, 4) {
            let kind = if gen::ratio(1, 2) { ErrorKind::StorageFull } else { gen::file_error_kind() };
            let at = gen::below(l as u32 + 1) as u64;
            with(|w| {
                w.fs.write_fail_at.insert(disk_fault_idx, (at, kind));
            });
            descr.push(format!("disk write error on created file #{disk_fault_idx} at {at}"));
            disk_fault_idx += 1;
        } else if gen::ratio(1, 10) {
            let ck = gen::file_error_kind();
            with(|w| {
                w.fs.close_fail.insert(disk_fault_idx, ck);
            });
            disk_fault_idx += 1;
        } else if gen::ratio(1, 12) {
            let ck = gen::file_error_kind();
            with(|w| w.fs.create_faults.push(ck));
        }
        descr.push(format!("upload {c}: {} L={l} M={m} ending={ending} cut={cut} ready={:?}", if declared { "declared" } else { "undeclared" }, r.plan.on_ready));
    }
    let mut ex = Faults {
        dir: cache.clone(),
        steps: 0,
        remove_dir_at: if gen::ratio(1, 8) { Some(u64::from(gen::below(150))) } else { None },
        cancel_at: if gen::ratio(1, 4) { Some(u64::from(gen::below(300))) } else { None },
        revoke_at: if with_permit { Some(u64::from(gen::below(200))) } else { None },
        max_files_seen: 0,
        dir_removed: false,
        cancelled: false,
    };
    if let Some(v) = eng.run(&mut ex) {
        let mut v = v;
        v.detail = format!("{} ; workload: {descr:?}", v.detail);
        return Outcome { violation: Some(v), nontrivial: true, ..Default::default() };
    }
    if eng.hit_cap {
        return Outcome::fail("C10.terminates", format!("never quiesces; workload: {descr:?}"));
    }
    // temp-file removal errors surface as panics in destructors: they are task panics of the SUT
    if let Some(p) = eng.sut_panics().first() {
        return Outcome::fail("C10.no_task_panic", format!("{p}; workload: {descr:?}"));
    }
    // every upload ends one way or the other: a client that waits for the answer gets one,
    // or sees the connection closed (a request that just hangs keeps its file for ever)
    if !ex.cancelled {
        if let Some((i, c)) = eng.clients.iter().enumerate().find(|(_, c)| !c.done()) {
            return Outcome::fail(
                "C10.upload_ends",
                format!("client {i} still waits at script step {} ({:?}) although nothing is runnable: its upload was neither answered nor abandoned; workload: {descr:?}", c.pc, c.ops.get(c.pc).map(|o| format!("{o:?}").chars().take(24).collect::<String>())),
            );
        }
    }
    let open = with(|w| w.net.conns.iter().filter(|c| c.accepted && !c.server_closed).count());
    let left = list_dir(&cache);
    if open == 0 && !left.is_empty() {
        return Outcome::fail("C10.dir_empty_after_all_closed", format!("all connections have closed but the cache dir still holds {left:?}; workload: {descr:?}"));
    }
    if open > 0 {
        gen::count("probe.connection_still_open_at_quiescence");
    }
    if ex.max_files_seen > 0 {
        gen::count("probe.temp_file_existed");
    }
    if ex.max_files_seen >= 2 {
        gen::count("probe.two_temp_files_at_once");
    }
    Outcome {
        nontrivial: ex.max_files_seen > 0,
        sample: if cfg.index < 2 { Some(json!({"workload": descr, "max_files_at_once": ex.max_files_seen})) } else { None },
        ..Default::default()
    }
}

/// true when `rx` holds the complete head of a non-1xx response (interim heads are skipped)
fn final_head_complete(rx: &[u8]) -> bool {
    let mut rest = rx;
    loop {
        let Some(p) = rest.windows(4).position(|w| w == b"\r\n\r\n") else { return false };
        if !rest.starts_with(b"HTTP/1.1 1") {
            return true;
        }
        rest = &rest[p + 4..];
    }
}

/// Watches the cache dir of uploads that are answered with an endless response.
struct StreamWatch {
    dir: PathBuf,
    steps: u64,
    max_files_seen: usize,
    send_left: u32,
    drop_senders_at: Option<u64>,
    next_id: u32,
}
impl StreamWatch {
    /// true when every client of the run holds the complete head of its answer
    fn all_answered(eng: &Engine) -> bool {
        eng.clients.iter().all(|c| final_head_complete(&c.received))
    }
}
impl Extras for StreamWatch {
    fn enabled(&mut self, _eng: &Engine) -> Vec<u32> {
        let have = handler::HANDLER.with(|h| !h.borrow().senders.is_empty());
        let mut v = Vec::new();
        if have && self.send_left > 0 {
            v.push(0);
        }
        if have {
            if let Some(t) = self.drop_senders_at {
                if self.steps >= t {
                    v.push(1);
                }
            }
        }
        v
    }
    fn step(&mut self, _eng: &mut Engine, id: u32) {
        if id == 0 {
            self.send_left -= 1;
            self.next_id += 1;
            let n = self.next_id;
            handler::HANDLER.with(|h| {
                let mut h = h.borrow_mut();
                let k = h.senders.len();
                let (_, s) = &mut h.senders[n as usize % k];
                s.send(servlin::Event::Message(format!("tick {n}")));
            });
        } else {
            handler::HANDLER.with(|h| h.borrow_mut().senders.clear());
            self.drop_senders_at = None;
            gen::count("probe.senders_dropped_later");
        }
    }
    fn after_step(&mut self, eng: &mut Engine, _act: Act) -> Option<Violation> {
        self.steps += 1;
        let files = list_dir(&self.dir);
        self.max_files_seen = self.max_files_seen.max(files.len());
        if !files.is_empty() && Self::all_answered(eng) {
            return Some(Violation {
                clause: "C10.removed_when_answered".into(),
                detail: format!(
                    "every client holds the complete head of its (event-stream) answer, i.e. every request of the run has been answered, yet the cache dir holds {files:?}"
                ),
            });
        }
        None
    }
}

/// Uploads answered with an event stream whose sender the application keeps: the answer
/// never "finishes", so the file must go when the handler has produced it, and a client
/// that leaves the idle stream (which the server cannot notice) must not pin it either.
fn stream_answer(cfg: &RunCfg) -> Outcome {
    let dir = RunDir::new("c10s");
    let cache = dir.path.join("cache");
    std::fs::create_dir_all(&cache).unwrap();
    let s = 64usize;
    let scfg = ServerCfg { max_conns: 3, small_body_len: s, cache_dir: Some(cache.clone()), with_permit: false };
    with(|w| {
        w.net.knobs.sock_cap = *w.tape.pick(&[262_144usize, 8192, 512]);
        w.net.knobs.short_io = w.tape.ratio(1, 2);
        w.net.knobs.spurious_pending_64 = *w.tape.pick(&[0u32, 0, 6]);
        w.fs.short_io = w.tape.ratio(1, 2);
    });
    let mut eng = match Engine::start(scfg) {
        Ok(e) => e,
        Err(e) => return Outcome { harness_error: Some(e), ..Default::default() },
    };
    eng.step_cap = 2_000_000;
    eng.weights.extra = gen::pick(&[1u32, 4]);
    let nclients = 1 + gen::below(2) as usize;
    let mut descr = Vec::new();
    for c in 0..nclients {
        let l = if gen::ratio(1, 8) { 60_000 + gen::below(20_000) as usize } else { s + 1 + gen::below(3000) as usize };
        let declared = gen::ratio(1, 2);
        let r = Req {
            path: format!("/s{c}"),
            method: "POST".into(),
            kind: if declared { ReqKind::Known(l) } else { ReqKind::Unknown(l) },
            expect: gen::ratio(1, 6),
            wait100: false,
            body_seed: gen::seed32(),
            plan: Plan { on_pending: OnPending::GetBody(l as u64 + 10), on_ready: OnReady::EventStream, resp: RespSpec::simple(200) },
            extra_headers: vec![],
            raw_head: None,
            raw_body: None,
            meta: None,
        };
        handler::set_plan(&r.path, r.plan.clone());
        let mut ops = vec![Op::Connect, Op::Send(r.head()), Op::Send(r.body())];
        // wait for the head of the answer, then: stay, leave politely, leave abruptly
        ops.push(Op::AwaitBytes(if r.expect { 90 } else { 40 }));
        let leave = gen::below(4);
        match leave {
            0 => {}
            1 => {
                ops.push(Op::Pause(1 + gen::below(20)));
                ops.push(Op::Close);
                gen::count("fault.client_close_idle_stream");
            }
            2 => {
                ops.push(Op::Pause(1 + gen::below(20)));
                ops.push(Op::Rst);
                gen::count("fault.client_rst_idle_stream");
            }
            _ => {
                ops.push(Op::Fin);
            }
        }
        let mut cl = Client::new(ops, gen::pick(&[Frag::Whole, Frag::Random]));
        cl.slow_read = gen::ratio(1, 4);
        eng.add_client(cl);
        descr.push(format!("upload {c}: {} L={l} answered with an event stream, client leave-mode {leave}", if declared { "declared" } else { "undeclared" }));
    }
    let mut ex = StreamWatch {
        dir: cache.clone(),
        steps: 0,
        max_files_seen: 0,
        send_left: gen::pick(&[0u32, 0, 1, 3]),
        drop_senders_at: if gen::ratio(1, 3) { Some(50 + u64::from(gen::below(400))) } else { None },
        next_id: 0,
    };
    let run = eng.run(&mut ex);
    // the application lets go of its senders at the very end so that the run can wind down
    let left_idle = list_dir(&cache);
    handler::HANDLER.with(|h| h.borrow_mut().senders.clear());
    let run2 = if run.is_none() { eng.run(&mut ex) } else { None };
    if let Some(mut v) = run.or(run2) {
        v.detail = format!("{} ; workload: {descr:?}", v.detail);
        return Outcome { violation: Some(v), nontrivial: true, ..Default::default() };
    }
    if eng.hit_cap {
        return Outcome::fail("C10.terminates", format!("never quiesces; workload: {descr:?}"));
    }
    if let Some(p) = eng.sut_panics().first() {
        return Outcome::fail("C10.no_task_panic", format!("{p}; workload: {descr:?}"));
    }
    if StreamWatch::all_answered(&eng) {
        gen::count("probe.upload_answered_with_stream");
        if !left_idle.is_empty() {
            return Outcome::fail("C10.removed_when_answered", format!("idle at quiescence with every request answered, the cache dir holds {left_idle:?}; workload: {descr:?}"));
        }
    }
    let left = list_dir(&cache);
    let open = with(|w| w.net.conns.iter().filter(|c| c.accepted && !c.server_closed).count());
    if open == 0 && !left.is_empty() {
        return Outcome::fail("C10.dir_empty_after_all_closed", format!("all connections have closed but the cache dir still holds {left:?}; workload: {descr:?}"));
    }
    Outcome {
        nontrivial: ex.max_files_seen > 0,
        sample: if cfg.index < 1 { Some(json!({"workload": descr, "max_files_at_once": ex.max_files_seen})) } else { None },
        ..Default::default()
    }
}

pub fn spec() -> PropertySpec {
    PropertySpec {
        id: "C10",
        level: "fault_enumeration",
        rule: "Each run: the real server with a real per-run cache directory (tmpfs) and 1-4 concurrent uploads (declared and undeclared length above the in-memory threshold, 65 B .. 150 KiB) whose life is cut by a fault sequence drawn from: client FIN / RST / abrupt close at an offset class {0, 1, half, 8191..8193, 65535..65537, L-1, L, L+1}; disk write failure (ENOSPC, EIO) at an offset, close failure, create failure, short writes; body over the handler's limit; handler outcome after receipt {normal, 5xx, drop, panic, fetch-body-again, normal while the application keeps a clone of the request body}; cache directory removed at a tape-chosen step; permit revoked mid-upload; connection-task cancellation at a tape-chosen step (only destructors run). Oracle reads the REAL directory: per-step invariant (a file may exist only while the server still holds an open connection - after a harness-injected task cancellation also while a handler job is still running) and, once every connection has closed, an empty directory; destructor panics are task panics. Second stage: uploads answered with Response::event_stream() whose sender the application keeps (an answer that never finishes): as soon as every client holds the complete response head, and again idle at quiescence after clients stayed / closed / reset on the silent stream, the directory must be empty. non-trivial = a temp file existed during the run.",
        scenarios: vec![Scenario { name: "c10.uploads", property: "C10", func: scenario, runs_quick: 250_000, runs_thorough: 6_000_000, doc: "interrupted uploads" },
            Scenario { name: "c10.stream_answer", property: "C10", func: stream_answer, runs_quick: 60_000, runs_thorough: 1_500_000, doc: "uploads answered with an endless event stream; the client stays, leaves or resets" },
        ],
        required_probes: vec![
            "probe.temp_file_existed", "probe.two_temp_files_at_once", "fault.client_rst_mid_upload", "fault.client_fin_mid_upload", "fault.client_close_mid_upload", "fault.fs_write", "fault.fs_close", "fault.fs_create",
            "fault.cache_dir_removed", "fault.task_cancelled", "fault.permit_revoked_mid_upload", "job.panicked", "probe.upload_answered_with_stream", "fault.client_rst_idle_stream", "fault.client_close_idle_stream",
        ],
        components: components_server(),
        assumptions: vec!["process death is out of scope (no recovery code exists; the property speaks of requests answered or abandoned)", "files are attributed to requests by count, not by name (names are random)"],
    }
}
