//! C19 - file log writer: no loss or reordering across rotation; disk use bounded.
//!
//! Built only with `--cfg servlin_verif`: the real writer thread reads the simulated
//! clock and reports when it has finished each event (guarded hooks in /repo), so the
//! harness drives it in lock-step: set clock, send one event, wait for the thread.
#![cfg(servlin_verif)]

use crate::gen;
use crate::run::{Outcome, RunCfg, Scenario, Tier};
use crate::spec::PropertySpec;
use crate::util::{list_dir, RunDir};
use serde_json::json;
use servlin::log::internal::{LogEvent, PrefixFile, PrefixFileSet};
use servlin::log::{tag, Level, LogFileWriter};
use servlin::verif_hooks as hooks;
use sim_core::with;
use std::collections::BTreeMap;
use std::path::{Path, PathBuf};
use std::sync::mpsc::SyncSender;
use std::time::{Duration, SystemTime};

const T0: u64 = 1_700_000_000; // simulated epoch seconds at the start of a history
const PREFIX: &str = "server.log";

fn set_clock(secs_ns: u128) {
    hooks::set_now_ns(secs_ns as u64);
}

struct FileInfo {
    created_at_ns: u128,
    last_write_ns: u128,
    closed_at_ns: Option<u128>,
    preexisting: bool,
    /// inode: a name can be reused by a later file created within the same second
    ino: u64,
}

struct Run {
    relative_prefix: bool,
    dir: PathBuf,
    now_ns: u128,
    max_write_bytes: u64,
    max_keep_bytes: u64,
    max_write_age: Duration,
    keep_age: Option<Duration>,
    /// creation order of prefix files as observed by diffing listings
    order: Vec<String>,
    info: BTreeMap<String, FileInfo>,
    /// (seq, was it acknowledged) of every event sent
    sent: Vec<u64>,
    max_event_bytes: u64,
    /// seq numbers whose line may legitimately be missing or cut (torn tail)
    torn: Vec<u64>,
    unrelated: BTreeMap<String, Vec<u8>>,
    writer: Option<(u64, SyncSender<LogEvent>, u64)>, // (hook id, sender, events sent to this writer)
    abandoned: Vec<SyncSender<LogEvent>>,
    descr: Vec<String>,
    rotations: u64,
    deletions: u64,
    /// sequence numbers found in files that are closed (they never change again)
    closed_cache: BTreeMap<String, Vec<u64>>,
}

fn ino_of(p: &Path) -> u64 {
    use std::os::unix::fs::MetadataExt;
    std::fs::metadata(p).map(|m| m.ino()).unwrap_or(0)
}

fn prefix_files(dir: &Path) -> Vec<String> {
    list_dir(dir).into_iter().filter(|n| n.starts_with(PREFIX)).collect()
}

impl Run {
    fn start_writer(&mut self) -> Result<(), Outcome> {
        set_clock(self.now_ns);
        let id = hooks::next_writer_id();
        // (in a share of the runs the prefix is given relative to the current directory, with a
        // leading "./" - the files are the same ones)
        let prefix_path = if self.relative_prefix {
            let _ = std::env::set_current_dir(&self.dir);
            PathBuf::from(format!("./{PREFIX}"))
        } else {
            self.dir.join(PREFIX)
        };
        let mut b = LogFileWriter::new_builder(prefix_path, self.max_keep_bytes).with_max_write_bytes(self.max_write_bytes).with_max_write_age(self.max_write_age);
        if let Some(a) = self.keep_age {
            b = b.with_max_keep_age(a);
        }
        let _ = sim_core::take_last_panic();
        let res = std::panic::catch_unwind(std::panic::AssertUnwindSafe(|| b.start_writer_thread()));
        match res {
            Ok(Ok(sender)) => {
                // wait for the thread to register
                let _ = hooks::wait_writer(id, 0, Duration::from_secs(20));
                self.writer = Some((id, sender, 0));
                self.observe(false)
            }
            Ok(Err(e)) => Err(Outcome::fail("C19.writer_starts", format!("start_writer_thread failed: {e:?}; history: {:?}", self.descr))),
            Err(_) => {
                let info = sim_core::take_last_panic();
                Err(Outcome::fail(
                    "C19.writer_starts",
                    format!("start_writer_thread panicked: {}; history: {:?}", info.map(|i| format!("{} at {}", i.message, i.location)).unwrap_or_default(), self.descr),
                ))
            }
        }
    }

    /// Sends one event and waits until the writer thread has dealt with it.
    fn send(&mut self, seq: u64, size: usize) -> Result<(), Outcome> {
        sim_core::heartbeat();
        set_clock(self.now_ns);
        let pad = "x".repeat(size);
        let ev = LogEvent::new(Level::Info, vec![tag("seq", seq), tag("pad", pad)]);
        let (id, sender, n) = self.writer.as_mut().expect("writer");
        if sender.send(ev).is_err() {
            return Err(Outcome::fail("C19.writer_keeps_running", format!("the writer thread is gone: sending event {seq} failed; history: {:?}", self.descr)));
        }
        *n += 1;
        let want = *n;
        let id = *id;
        match hooks::wait_writer(id, want, Duration::from_secs(30)) {
            Some(info) if info.events_done >= want => {}
            Some(info) if info.exited => {
                return Err(Outcome::fail(
                    "C19.writer_keeps_running",
                    format!("the writer thread ended while processing event {seq} (after {} events); history: {:?}", info.events_done, self.descr),
                ));
            }
            other => return Err(Outcome { harness_error: Some(format!("writer did not acknowledge event {seq}: {other:?}")), ..Default::default() }),
        }
        self.sent.push(seq);
        self.max_event_bytes = self.max_event_bytes.max(size as u64 + 120);
        Ok(())
    }

    /// Lets `sizes.len() - 1` events queue up behind the writer and then releases it: a
    /// backlog, as under a burst of logging. The writer is parked right after it has reported
    /// the first event of the burst, the others are queued, then it is released - so the
    /// whole backlog is in the channel before the writer looks at it again, whatever it does
    /// with it. The result on disk must be the same as for one-at-a-time delivery.
    fn send_burst(&mut self, first_seq: u64, sizes: &[usize]) -> Result<(), Outcome> {
        sim_core::heartbeat();
        set_clock(self.now_ns);
        let (id, sender, n) = self.writer.as_mut().expect("writer");
        let id = *id;
        hooks::park_writers_at(Some(*n + 1));
        for (i, size) in sizes.iter().enumerate() {
            let ev = LogEvent::new(Level::Info, vec![tag("seq", first_seq + i as u64), tag("pad", "x".repeat(*size))]);
            if sender.send(ev).is_err() {
                hooks::park_writers_at(None);
                return Err(Outcome::fail("C19.writer_keeps_running", format!("the writer thread is gone: sending event {} failed; history: {:?}", first_seq + i as u64, self.descr)));
            }
            *n += 1;
            if i == 0 {
                // the writer deals with the first event and then waits at the gate
                match hooks::wait_writer(id, *n, Duration::from_secs(30)) {
                    Some(info) if info.events_done >= *n => {}
                    Some(info) if info.exited => {
                        hooks::park_writers_at(None);
                        return Err(Outcome::fail("C19.writer_keeps_running", format!("the writer thread ended while processing event {first_seq}; history: {:?}", self.descr)));
                    }
                    other => {
                        hooks::park_writers_at(None);
                        return Err(Outcome { harness_error: Some(format!("writer did not acknowledge event {first_seq}: {other:?}")), ..Default::default() });
                    }
                }
            }
        }
        let want = *n;
        hooks::park_writers_at(None);
        let last = first_seq + sizes.len() as u64 - 1;
        let needle = format!("\"seq\":{last},");
        let mut acknowledged = false;
        for _ in 0..3000 {
            sim_core::heartbeat();
            match hooks::wait_writer(id, want, Duration::from_millis(10)) {
                Some(info) if info.events_done >= want => {
                    acknowledged = true;
                    break;
                }
                Some(info) if info.exited => {
                    return Err(Outcome::fail("C19.writer_keeps_running", format!("the writer thread ended while processing the burst {first_seq}..={last} (after {} events); history: {:?}", info.events_done, self.descr)));
                }
                _ => {}
            }
            // a writer that deals with several queued events in one go acknowledges fewer
            // than were sent: then the burst is over when its last line is on disk
            let on_disk = prefix_files(&self.dir).iter().rev().take(3).any(|f| std::fs::read(self.dir.join(f)).map(|d| String::from_utf8_lossy(&d).contains(&needle)).unwrap_or(false));
            if on_disk {
                std::thread::sleep(Duration::from_millis(20));
                break;
            }
        }
        if !acknowledged {
            // resynchronise the event counter with what the writer reports
            if let (Some(info), Some((_, _, n))) = (hooks::wait_writer(id, 0, Duration::from_millis(1)), self.writer.as_mut()) {
                *n = info.events_done;
            }
        }
        for (i, size) in sizes.iter().enumerate() {
            self.sent.push(first_seq + i as u64);
            self.max_event_bytes = self.max_event_bytes.max(*size as u64 + 120);
        }
        Ok(())
    }

    /// Diffs the directory listing against what is known; records creations and deletions.
    fn observe(&mut self, after_event: bool) -> Result<(), Outcome> {
        let files = prefix_files(&self.dir);
        if std::env::var_os("VERIF_C19_DEBUG").is_some() {
            let l: Vec<String> = files.iter().map(|f| format!("{f}:{}", std::fs::metadata(self.dir.join(f)).map(|m| m.len()).unwrap_or(0))).collect();
            eprintln!("[c19] t={} after_event={after_event} sent={:?} listing={l:?} order={:?}", self.now_ns, self.sent.last(), self.order);
        }
        // a known name whose inode changed is a different file: the old one was deleted and
        // the name reused (same second); it counts as gone first, then as newly created
        let same_file = |me: &Self, f: &String| files.contains(f) && me.info.get(f).map(|i| i.ino == ino_of(&me.dir.join(f))).unwrap_or(false);
        // deleted files: must be the oldest ones (a prefix of the creation order)
        let present: Vec<bool> = self.order.iter().map(|f| same_file(self, f)).collect();
        if let Some(first_present) = present.iter().position(|p| *p) {
            // (files of earlier runs that carry the very same modification time have no
            // order among themselves: deleting any of them first is "oldest first")
            let tie = |me: &Self, a: &String, b: &String| match (me.info.get(a), me.info.get(b)) {
                (Some(x), Some(y)) => x.preexisting && y.preexisting && x.last_write_ns == y.last_write_ns,
                _ => false,
            };
            let survivor = self.order[first_present].clone();
            if let Some(hole) = present[first_present..].iter().enumerate().position(|(i, p)| !*p && !tie(self, &self.order[first_present + i], &survivor)) {
                return Err(Outcome::fail(
                    "C19.deletes_oldest_first",
                    format!("file {} was deleted although the older file {} survives; history: {:?}", self.order[first_present + hole], self.order[first_present], self.descr),
                ));
            }
        }
        let gone: Vec<String> = self.order.iter().zip(&present).filter(|(_, p)| !**p).map(|(f, _)| f.clone()).collect();
        for g in gone {
            self.order.retain(|f| f != &g);
            self.info.remove(&g);
            self.closed_cache.remove(&g);
            self.deletions += 1;
        }
        // new files (several can appear during one burst: oldest first, by the order in
        // which the file system saw them written)
        let mut fresh: Vec<&String> = files.iter().filter(|f| !self.info.contains_key(*f)).collect();
        // (file-system timestamps are too coarse to order files written microseconds apart;
        // the first sequence number in each file is exact)
        let first_seq = |f: &String| -> u64 {
            let mut buf = vec![0u8; 4096];
            let n = std::fs::File::open(self.dir.join(f.as_str())).and_then(|mut fh| std::io::Read::read(&mut fh, &mut buf)).unwrap_or(0);
            let text = String::from_utf8_lossy(&buf[..n]).to_string();
            text.find("\"seq\":").and_then(|p| text[p + 6..].chars().take_while(char::is_ascii_digit).collect::<String>().parse::<u64>().ok()).unwrap_or(u64::MAX)
        };
        fresh.sort_by_key(|f| (first_seq(f), (*f).clone()));
        let mut tick: u128 = 0;
        for f in fresh {
            if !self.info.contains_key(f) {
                // (files that appear within one observation were created one after the other:
                // the writer's clock advances with every reading)
                let when = self.now_ns + tick;
                tick += 1;
                // the previously newest file of this writer is now closed
                if let Some(prev) = self.order.last() {
                    if let Some(pi) = self.info.get_mut(prev) {
                        if pi.closed_at_ns.is_none() {
                            pi.closed_at_ns = Some(when);
                        }
                    }
                }
                self.order.push(f.clone());
                self.info.insert(f.clone(), FileInfo { created_at_ns: when, last_write_ns: when, closed_at_ns: None, preexisting: false, ino: ino_of(&self.dir.join(f)) });
                if after_event {
                    self.rotations += 1;
                }
            }
        }
        if after_event {
            if let Some(cur) = self.order.last() {
                if let Some(ci) = self.info.get_mut(cur) {
                    ci.last_write_ns = self.now_ns + tick;
                }
            }
        }
        Ok(())
    }

    fn check_bounds(&self, after_event: bool) -> Result<(), Outcome> {
        sim_core::heartbeat();
        let mut total = 0u64;
        for f in &self.order {
            let len = std::fs::metadata(self.dir.join(f)).map(|m| m.len()).unwrap_or(0);
            total += len;
            let fi = &self.info[f];
            if !fi.preexisting {
                if len > self.max_write_bytes + self.max_event_bytes {
                    return Err(Outcome::fail("C19.per_file_size", format!("file {f} has {len} bytes, max_write_bytes={}; history: {:?}", self.max_write_bytes, self.descr)));
                }
                let span = fi.last_write_ns - fi.created_at_ns;
                if span > self.max_write_age.as_nanos() {
                    return Err(Outcome::fail(
                        "C19.per_file_age",
                        format!("file {f} was still written {} s after its creation, max_write_age={:?}; history: {:?}", span / 1_000_000_000, self.max_write_age, self.descr),
                    ));
                }
            }
        }
        if total > self.max_keep_bytes + self.max_event_bytes {
            return Err(Outcome::fail(
                "C19.total_size_bounded",
                format!(
                    "the {} files with the prefix hold {total} bytes in total, max_keep_bytes={} (+ one event of <= {}); files: {:?}; history: {:?}",
                    self.order.len(),
                    self.max_keep_bytes,
                    self.max_event_bytes,
                    self.order,
                    self.descr
                ),
            ));
        }
        // (the keep-age is enforced when an event is written, not at start-up)
        if let (Some(age), true) = (self.keep_age, after_event) {
            let current = self.order.last();
            for f in &self.order {
                if Some(f) == current {
                    continue;
                }
                let fi = &self.info[f];
                let closed = fi.closed_at_ns.unwrap_or(fi.last_write_ns);
                if closed + age.as_nanos() < self.now_ns {
                    return Err(Outcome::fail(
                        "C19.keep_age",
                        format!("closed file {f} is {} s old, max_keep_age={age:?}; history: {:?}", (self.now_ns - closed) / 1_000_000_000, self.descr),
                    ));
                }
            }
        }
        // unrelated files are never touched
        for (name, content) in &self.unrelated {
            match std::fs::read(self.dir.join(name)) {
                Ok(c) if &c == content => {}
                _ => return Err(Outcome::fail("C19.unrelated_files_untouched", format!("file {name}, which does not carry the prefix, was modified or deleted; history: {:?}", self.descr))),
            }
        }
        Ok(())
    }

    /// Lines of the surviving files, in creation order, form a contiguous most-recent
    /// suffix of the accepted events.
    fn check_content(&mut self) -> Result<(), Outcome> {
        let mut seqs: Vec<u64> = Vec::new();
        self.closed_cache.retain(|k, _| self.info.contains_key(k));
        let newest = self.order.last().cloned();
        for f in &self.order.clone() {
            if self.info[f].preexisting {
                continue;
            }
            // a closed file was parsed when it was the newest one and cannot change any more
            // (except by a torn-tail truncation, which clears the cache)
            if Some(f) != newest.as_ref() {
                if let Some(c) = self.closed_cache.get(f) {
                    seqs.extend_from_slice(c);
                    continue;
                }
            }
            let first_new = seqs.len();
            let data = match std::fs::read(self.dir.join(f)) {
                Ok(d) => d,
                Err(_) => continue,
            };
            let text = String::from_utf8_lossy(&data);
            let mut lines: Vec<&str> = text.split('\n').collect();
            let tail = lines.pop().unwrap_or("");
            if !tail.is_empty() {
                // an incomplete last line is only legitimate for a torn tail
                if self.torn.is_empty() {
                    return Err(Outcome::fail("C19.whole_lines", format!("file {f} ends with an incomplete line; history: {:?}", self.descr)));
                }
            }
            for l in lines {
                if !(l.starts_with('{') && l.ends_with('}')) {
                    return Err(Outcome::fail("C19.whole_lines", format!("file {f} contains a split or corrupted line: {:?}; history: {:?}", l.chars().take(80).collect::<String>(), self.descr)));
                }
                if let Some(p) = l.find("\"seq\":") {
                    let digits: String = l[p + 6..].chars().take_while(char::is_ascii_digit).collect();
                    match digits.parse::<u64>() {
                        Ok(n) => seqs.push(n),
                        Err(_) => return Err(Outcome::fail("C19.whole_lines", format!("file {f}: unreadable seq in line; history: {:?}", self.descr))),
                    }
                }
                // (whole lines without a sequence tag are the writer's own, e.g. its start marker)
            }
            if Some(f) != newest.as_ref() {
                self.closed_cache.insert(f.clone(), seqs[first_new..].to_vec());
            }
        }
        // strictly consecutive (apart from torn lines), ending at the last accepted event
        for w in seqs.windows(2) {
            let (a, b) = (w[0], w[1]);
            if b <= a {
                return Err(Outcome::fail("C19.order_and_no_duplicates", format!("event {b} appears after event {a}: duplicated or reordered; history: {:?}", self.descr)));
            }
            if b != a + 1 && !((a + 1..b).all(|m| self.torn.contains(&m))) {
                return Err(Outcome::fail("C19.no_loss_inside_suffix", format!("events {}..{} are missing between surviving lines {a} and {b}; history: {:?}", a + 1, b - 1, self.descr)));
            }
        }
        if let Some(&last_sent) = self.sent.last() {
            match seqs.last() {
                Some(&l) if l == last_sent => {}
                Some(&l) if self.torn.contains(&last_sent) && l + 1 == last_sent => {}
                other => {
                    return Err(Outcome::fail(
                        "C19.most_recent_suffix",
                        format!("the newest accepted event is {last_sent} but the newest line on disk is {other:?}: what survives is not the most recent suffix; history: {:?}", self.descr),
                    ))
                }
            }
        }
        Ok(())
    }

    /// Stamps the files written so far with the simulated time of their last write, as a
    /// real clock would have left them (needed before another writer scans the directory).
    fn stamp_mtimes(&self) {
        for f in &self.order {
            let fi = &self.info[f];
            let t = SystemTime::UNIX_EPOCH + Duration::from_nanos(fi.last_write_ns as u64);
            if let Ok(file) = std::fs::OpenOptions::new().write(true).open(self.dir.join(f)) {
                let _ = file.set_modified(t);
            }
        }
    }

    fn stop_writer(&mut self, how: u32) {
        if let Some((id, sender, _n)) = self.writer.take() {
            match how {
                0 => {
                    // graceful: sender dropped, thread drains and exits
                    drop(sender);
                    let _ = hooks::wait_writer(id, u64::MAX, Duration::from_secs(20));
                    hooks::forget_writer(id);
                }
                _ => {
                    // kill: the thread is abandoned as it is (it never runs again)
                    self.abandoned.push(sender);
                }
            }
        }
        if let Some(cur) = self.order.last().cloned() {
            if let Some(ci) = self.info.get_mut(&cur) {
                ci.closed_at_ns = Some(self.now_ns);
            }
        }
    }
}

fn history(cfg: &RunCfg) -> Outcome {
    let rd = RunDir::new("c19");
    let dir = rd.path.join("logs");
    std::fs::create_dir_all(&dir).unwrap();
    let max_write_bytes = gen::pick(&[64u64 * 1024, 128 * 1024, 1024 * 1024]);
    let keep_factor = gen::pick(&[10u64, 20, 35, 100]); // tenths
    let max_keep_bytes = max_write_bytes * keep_factor / 10;
    let keep_age = if gen::ratio(1, 2) { Some(Duration::from_secs(gen::pick(&[60u64, 600, 3600, 86_400]))) } else { None };
    let max_write_age = Duration::from_secs(gen::pick(&[1u64, 30, 3600, 86_400]));
    let mut run = Run {
        relative_prefix: gen::ratio(1, 5),
        dir: dir.clone(),
        now_ns: u128::from(T0) * 1_000_000_000,
        max_write_bytes,
        max_keep_bytes,
        max_write_age,
        keep_age,
        order: Vec::new(),
        info: BTreeMap::new(),
        sent: Vec::new(),
        max_event_bytes: 200,
        torn: Vec::new(),
        unrelated: BTreeMap::new(),
        writer: None,
        abandoned: Vec::new(),
        descr: vec![format!("max_write_bytes={max_write_bytes} max_keep_bytes={max_keep_bytes} max_write_age={max_write_age:?} keep_age={keep_age:?}")],
        rotations: 0,
        deletions: 0,
        closed_cache: BTreeMap::new(),
    };
    // files of earlier runs, oldest first, and unrelated look-alikes
    let npre = gen::below(6);
    // ages strictly decreasing: file 0 is the oldest
    let mut ages: Vec<u64> = (0..npre).map(|_| u64::from(gen::pick(&[30u32, 400, 5000, 100_000])) + u64::from(gen::below(20))).collect();
    ages.sort_unstable_by(|a, b| b.cmp(a));
    for k in 1..ages.len() {
        if ages[k] >= ages[k - 1] {
            ages[k] = ages[k - 1].saturating_sub(1);
        }
    }
    // Files restored with coarse timestamps, or closed within one timestamp tick, carry
    // the very same mtime: they must all be found, counted and deleted like any other file
    // (their order among themselves is free).
    if npre >= 2 && gen::ratio(1, 4) {
        let k = 1 + gen::below(npre - 1) as usize;
        ages[k] = ages[k - 1];
        if k + 1 < ages.len() && gen::ratio(1, 2) {
            ages[k + 1] = ages[k];
        }
        gen::count("probe.preexisting_files_with_equal_mtime");
    }
    for i in 0..npre {
        let age_s = ages[i as usize];
        let name = format!("{PREFIX}.20231114T{:02}{:02}{:02}Z-0", i, i, i);
        let len = gen::pick(&[0usize, 100, 40_000, 100_000]);
        std::fs::write(dir.join(&name), vec![b'o'; len]).unwrap();
        let t_ns = run.now_ns - u128::from(age_s) * 1_000_000_000;
        let f = std::fs::OpenOptions::new().write(true).open(dir.join(&name)).unwrap();
        f.set_modified(SystemTime::UNIX_EPOCH + Duration::from_nanos(t_ns as u64)).unwrap();
        run.order.push(name.clone());
        run.info.insert(name.clone(), FileInfo { created_at_ns: t_ns, last_write_ns: t_ns, closed_at_ns: Some(t_ns), preexisting: true, ino: ino_of(&dir.join(&name)) });
        run.descr.push(format!("pre-existing {name} {len} bytes, {age_s} s old"));
    }
    if npre > 0 {
        gen::count("probe.preexisting_files");
    }
    for name in ["server.lo", "xserver.log", "other.txt", "server.LOG.1"] {
        if gen::ratio(1, 2) {
            let c = vec![b'u'; 10 + gen::below(100) as usize];
            std::fs::write(dir.join(name), &c).unwrap();
            run.unrelated.insert(name.to_string(), c);
        }
    }
    if let Err(o) = run.start_writer() {
        return cleanup(run, o);
    }
    // at start-up, files of earlier runs count towards the keep-size
    if let Err(o) = run.check_bounds(false) {
        return cleanup(run, o);
    }
    let nevents = match cfg.tier {
        Tier::Quick => 30 + gen::below(400),
        Tier::Thorough => 100 + gen::below(if gen::ratio(1, 40) { 20_000 } else { 2500 }),
    };
    let big_share = gen::pick(&[2u32, 8, 30]);
    // events larger than a whole file (and, with the smallest keep budget, than the budget):
    // each must still get a file of its own, also when several arrive back to back
    let huge_share = gen::pick(&[0u32, 0, 0, 3, 15]);
    let start_ns = run.now_ns;
    let mut seq = 0u64;
    for i in 0..nevents {
        // clock
        let gap_ns: u128 = match gen::below(40) {
            0 => u128::from(gen::below(3 * 3600)) * 1_000_000_000,
            1 => u128::from(gen::below(3 * 86_400)) * 1_000_000_000,
            2..=6 => u128::from(gen::below(5000)) * 1_000_000,
            _ => u128::from(gen::below(50)) * 1_000_000,
        };
        // a real clock never stands still between two events
        run.now_ns += gap_ns + 1_000 + u128::from(gen::below(1000));
        // restart?
        if gen::ratio(1, 120) {
            let how = gen::below(3);
            run.stop_writer(how);
            run.descr.push(format!("restart kind {how} before event {seq}"));
            gen::count(match how {
                0 => "fault.graceful_restart",
                1 => "fault.kill_restart",
                _ => "fault.kill_restart_torn_tail",
            });
            if how == 2 {
                // cut the newest file inside its last line
                if let (Some(cur), Some(&last)) = (run.order.last().cloned(), run.sent.last()) {
                    let p = dir.join(&cur);
                    if let Ok(len) = std::fs::metadata(&p).map(|m| m.len()) {
                        if len > 40 && !run.info[&cur].preexisting {
                            let f = std::fs::OpenOptions::new().write(true).open(&p).unwrap();
                            f.set_len(len - 1 - u64::from(gen::below(30))).unwrap();
                            run.torn.push(last);
                            run.closed_cache.clear();
                        }
                    }
                }
            }
            // (after the truncation above, which would otherwise leave a real-clock mtime)
            run.stamp_mtimes();
            if let Err(o) = run.start_writer() {
                return cleanup(run, o);
            }
            // starting a writer takes time: the first event comes strictly later
            run.now_ns += 1_000 + u128::from(gen::below(1000));
        }
        // a backlog: 2-60 small events queue up behind the writer and are released together
        if gen::ratio(1, 40) {
            let k = 2 + gen::below(89) as usize;
            let sizes: Vec<usize> = (0..k).map(|_| 200 + gen::below(2800) as usize).collect();
            let first = seq + 1;
            seq += k as u64;
            gen::count("probe.backlog_released_at_once");
            if let Err(o) = run.send_burst(first, &sizes) {
                return cleanup(run, o);
            }
            if let Err(o) = run.observe(true) {
                return cleanup(run, o);
            }
            if let Err(o) = run.check_bounds(true) {
                return cleanup(run, o);
            }
            if let Err(o) = run.check_content() {
                return cleanup(run, o);
            }
            continue;
        }
        let size = if gen::below(100) < huge_share {
            gen::count("probe.event_larger_than_a_file");
            66_000 + gen::below(80_000) as usize
        } else if gen::below(100) < big_share {
            20_000 + gen::below(40_000) as usize
        } else {
            50 + gen::below(800) as usize
        };
        seq += 1;
        if let Err(o) = run.send(seq, size) {
            return cleanup(run, o);
        }
        if let Err(o) = run.observe(true) {
            return cleanup(run, o);
        }
        if let Err(o) = run.check_bounds(true) {
            return cleanup(run, o);
        }
        let rotated_now = run.info.get(run.order.last().unwrap()).map(|f| f.created_at_ns >= run.now_ns).unwrap_or(false);
        if rotated_now || i % 64 == 63 || i + 1 == nevents {
            if let Err(o) = run.check_content() {
                return cleanup(run, o);
            }
        }
    }
    with(|w| {
        w.now_ns = (run.now_ns - start_ns) as u64;
        w.count_n("probe.events_written", u64::from(nevents));
        w.count_n("probe.rotations", run.rotations);
        w.count_n("probe.files_deleted", run.deletions);
    });
    let sample = if cfg.index < 2 { Some(json!({"config": run.descr[0], "events": nevents, "rotations": run.rotations, "files_deleted": run.deletions, "files_at_end": run.order.len()})) } else { None };
    let nontrivial = run.rotations > 0;
    let h = sim_core::tape::fnv1a(format!("{:?}{}{}", run.descr, run.rotations, run.deletions).as_bytes());
    let mut o = cleanup(run, Outcome::default());
    o.nontrivial = nontrivial;
    o.sample = sample;
    o.case_hash = h;
    o
}

fn cleanup(mut run: Run, o: Outcome) -> Outcome {
    run.stop_writer(0);
    for s in run.abandoned.drain(..) {
        drop(s); // abandoned threads wake up, drain nothing, and exit
    }
    o
}

/// The file-set bookkeeping API against a reference model, with synthetic clocks.
fn file_set(cfg: &RunCfg) -> Outcome {
    let rd = RunDir::new("c19fs");
    let dir = rd.path.clone();
    let prefix = dir.join(PREFIX);
    let base = SystemTime::UNIX_EPOCH + Duration::from_secs(T0);
    // model: name -> (mtime offset seconds, len)
    let mut model: BTreeMap<String, (u64, u64)> = BTreeMap::new();
    let mut next_t = 1000u64;
    let n0 = gen::below(5);
    for i in 0..n0 {
        let name = format!("{PREFIX}.old{i}");
        let len = u64::from(gen::below(5000));
        std::fs::write(dir.join(&name), vec![b'a'; len as usize]).unwrap();
        let f = std::fs::OpenOptions::new().write(true).open(dir.join(&name)).unwrap();
        f.set_modified(base + Duration::from_secs(next_t)).unwrap();
        model.insert(name, (next_t, len));
        next_t += 10 + u64::from(gen::below(100));
    }
    std::fs::write(dir.join("unrelated.txt"), b"keep me").unwrap();
    std::fs::write(dir.join("server.lo"), b"keep me too").unwrap();
    let mut set = match PrefixFileSet::new(&prefix) {
        Ok(s) => s,
        Err(e) => return Outcome::fail("C19.file_set_model", format!("PrefixFileSet::new failed: {e}")),
    };
    let mut log = vec![format!("new() over {n0} existing files")];
    let nops = 4 + gen::below(12);
    for k in 0..nops {
        let r = std::panic::catch_unwind(std::panic::AssertUnwindSafe(|| -> Result<(), String> {
            match gen::below(4) {
                0 => {
                    let name = format!("{PREFIX}.new{k}");
                    let len = u64::from(gen::below(5000));
                    std::fs::write(dir.join(&name), vec![b'n'; len as usize]).map_err(|e| e.to_string())?;
                    set.push(PrefixFile { path: dir.join(&name), mtime: base + Duration::from_secs(next_t), len });
                    model.insert(name, (next_t, len));
                    log.push(format!("push(len {len}, t {next_t})"));
                    next_t += 10 + u64::from(gen::below(100));
                    Ok(())
                }
                1 => {
                    if model.is_empty() {
                        return Ok(());
                    }
                    log.push("delete_oldest()".into());
                    let oldest = model.iter().min_by_key(|(_, v)| v.0).map(|(k, _)| k.clone()).unwrap();
                    model.remove(&oldest);
                    set.delete_oldest()
                }
                2 => {
                    let now_t = next_t + u64::from(gen::below(200));
                    let d = u64::from(gen::below(400));
                    log.push(format!("delete_older_than(now {now_t}, {d} s)"));
                    model.retain(|_, v| v.0 + d >= now_t);
                    set.delete_older_than(base + Duration::from_secs(now_t), Duration::from_secs(d))
                }
                _ => {
                    let max = u64::from(gen::below(12_000));
                    log.push(format!("delete_oldest_while_over_max_len({max})"));
                    loop {
                        let total: u64 = model.values().map(|v| v.1).sum();
                        if total <= max {
                            break;
                        }
                        let oldest = model.iter().min_by_key(|(_, v)| v.0).map(|(k, _)| k.clone()).unwrap();
                        model.remove(&oldest);
                    }
                    set.delete_oldest_while_over_max_len(max)
                }
            }
        }));
        match r {
            Err(_) => {
                let info = sim_core::take_last_panic();
                return Outcome::fail("C19.file_set_no_panic", format!("{}; ops: {log:?}", info.map(|i| format!("{} at {}", i.message, i.location)).unwrap_or_default()));
            }
            Ok(Err(e)) => return Outcome::fail("C19.file_set_model", format!("operation failed: {e}; ops: {log:?}")),
            Ok(Ok(())) => {}
        }
        let on_disk: Vec<String> = prefix_files(&dir);
        let want: Vec<String> = model.keys().cloned().collect();
        if on_disk != want {
            return Outcome::fail("C19.file_set_model", format!("files on disk {on_disk:?}, the reference model keeps {want:?}; ops: {log:?}"));
        }
        if std::fs::read(dir.join("unrelated.txt")).ok().as_deref() != Some(b"keep me") || std::fs::read(dir.join("server.lo")).ok().as_deref() != Some(b"keep me too") {
            return Outcome::fail("C19.unrelated_files_untouched", format!("an unrelated file was touched; ops: {log:?}"));
        }
    }
    Outcome { nontrivial: true, case_hash: sim_core::tape::fnv1a(format!("{log:?}").as_bytes()), sample: if cfg.index < 1 { Some(json!({"ops": log})) } else { None }, ..Default::default() }
}

pub fn spec() -> PropertySpec {
    PropertySpec {
        id: "C19",
        level: "exploration",
        rule: "The real LogFileWriter writer thread and real files in a per-run tmpfs directory, built with --cfg servlin_verif so that the thread reads a simulated clock and reports each finished event; the harness drives it in lock-step (set clock, send one event with a unique sequence number, wait for the thread). Histories of 30-430 events (quick) / 100-20000 (thorough), 50 B - 60 KiB each (in some runs also 66-146 KB: larger than a 64 KiB file and than the smallest keep budget, singly and back to back), over configurations max_write_bytes in {64 KiB, 128 KiB, 1 MiB} x max_keep_bytes in {1, 2, 3.5, 10} x that, keep-age off / 60 s .. 1 day, max_write_age 1 s .. 1 day; clock gaps of milliseconds, seconds, hours, days; 0-5 pre-existing files of earlier runs with set sizes and mtimes (in a quarter of these runs two or three of them share one mtime: all must be counted and deleted, in any order among themselves); unrelated look-alike files; backlogs (2-90 events of 0.2-3 KB queue up behind the writer while the harness holds the writer at the end of an event, then are released together: the files must come out as for one-at-a-time delivery); restarts at random points: graceful, kill (thread abandoned), kill with a torn tail (newest file cut inside its last line). After EVERY event: creation order by diffing listings, oldest-first deletion, per-file size and age bounds, total size of all prefix files <= keep-size + one event, keep-age, unrelated files untouched; at every rotation and every 64 events: all surviving lines are whole, strictly consecutive and end at the newest accepted event. File-set stage: PrefixFileSet {new, push, delete_oldest, delete_older_than, delete_oldest_while_over_max_len} sequences with synthetic clocks against a reference model of the directory. non-trivial = at least one rotation; distinct = hash of history description.",
        scenarios: vec![
            Scenario { name: "c19.history", property: "C19", func: history, runs_quick: 6_000, runs_thorough: 60_000, doc: "writer thread histories" },
            Scenario { name: "c19.file_set", property: "C19", func: file_set, runs_quick: 80_000, runs_thorough: 1_500_000, doc: "file-set API vs model" },
        ],
        required_probes: vec!["probe.rotations", "probe.files_deleted", "probe.preexisting_files", "probe.preexisting_files_with_equal_mtime", "probe.event_larger_than_a_file", "probe.backlog_released_at_once", "fault.graceful_restart", "fault.kill_restart", "fault.kill_restart_torn_tail"],
        components: json!({
            "real": ["/repo/src/log/log_file_writer.rs, prefix_file_set.rs (with the guarded clock / progress hooks)", "the writer OS thread", "std::fs on tmpfs"],
            "simulated": ["the wall clock read by the writer (verif_hooks::now)", "the pacing of the writer thread (lock-step: one event at a time, or a backlog of 2-90 events released together)", "file mtimes left by earlier runs (set explicitly)"],
            "absent": ["disk errors (the writer uses std::fs directly; the property does not quantify over them)", "fsync / power-loss durability"]
        }),
        assumptions: vec![
            "before a restart the harness stamps each file's mtime with the simulated time of its last write, which is what a real clock would have left",
            "LogEvent::new stamps events with the real clock; lines are identified by their sequence tag, not by time",
            "the clock never goes backwards within a history",
        ],
    }
}
