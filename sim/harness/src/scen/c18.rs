//! C18 - log events carry the right tags and reach the installed logger exactly once.
//!
//! Caller threads are REAL OS threads that are parked and released one at a time: each
//! executes one operation only when the seeded scheduler hands it the baton, so which
//! thread acts next is decided by the tape, never by the OS.

use crate::gen;
use crate::run::{Outcome, RunCfg, Scenario};
use crate::spec::PropertySpec;
use serde_json::json;
use servlin::log::internal::{ClearGlobalLoggerOnDrop, LogEvent, Tag};
use servlin::log::{self, Level};
use servlin::{ContentType, Error, HeaderList, Request, RequestBody, Response};
use std::collections::HashMap;
use std::io::Read;
use std::net::{IpAddr, Ipv4Addr, SocketAddr};
use std::os::fd::FromRawFd;
use std::sync::mpsc::{sync_channel, Receiver, SyncSender, TryRecvError};
use std::time::{Duration, Instant};

const NAMES: [&str; 11] = ["msg", "http_method", "path", "request_body_len", "request_body", "response_body_len", "a", "b", "c", "code", "z"];

#[derive(Clone, Debug, PartialEq)]
enum Val {
    S(String),
    I(i64),
    U(u64),
    B(bool),
}
impl Val {
    fn render(&self) -> String {
        match self {
            Val::S(s) => format!("{s:?}"),
            Val::I(i) => i.to_string(),
            Val::U(u) => u.to_string(),
            Val::B(b) => b.to_string(),
        }
    }
    fn tag(&self, name: &'static str) -> Tag {
        match self {
            Val::S(s) => Tag::new(name, s.clone()),
            Val::I(i) => Tag::new(name, *i),
            Val::U(u) => Tag::new(name, *u),
            Val::B(b) => Tag::new(name, *b),
        }
    }
}

#[derive(Clone, Debug)]
enum HRes {
    Ok { code: u16, body: String },
    Err { msg: Option<String>, tags: Vec<(&'static str, Val)>, response: Option<(u16, String)> },
}

enum LOp {
    AddTag(&'static str, Val),
    Clear,
    Log(Level, String, Vec<(&'static str, Val)>),
    Wrapped { method: String, path: String, id: u64, body_len: Option<u64>, inner_log: Option<String>, result: HRes },
    Install(SyncSender<LogEvent>),
    DropGuard(ClearGlobalLoggerOnDrop),
    /// the guard's scope is left by a panic that is caught further up: the unwinder drops it
    DropGuardByUnwind(ClearGlobalLoggerOnDrop),
    Quit,
}

#[derive(Default)]
struct LRes {
    ok: bool,
    err: String,
    guard: Option<ClearGlobalLoggerOnDrop>,
    response: Option<(u16, Vec<u8>)>,
    panicked: Option<String>,
}

fn worker(rx: Receiver<LOp>, tx: SyncSender<LRes>) {
    while let Ok(op) = rx.recv() {
        if matches!(op, LOp::Quit) {
            break;
        }
        let res = std::panic::catch_unwind(std::panic::AssertUnwindSafe(|| exec(op)));
        let res = match res {
            Ok(r) => r,
            Err(_) => LRes { panicked: Some(sim_core::take_last_panic().map(|i| format!("{} at {}", i.message, i.location)).unwrap_or_else(|| "panic".into())), ..Default::default() },
        };
        if tx.send(res).is_err() {
            break;
        }
    }
}

fn exec(op: LOp) -> LRes {
    match op {
        LOp::AddTag(n, v) => {
            match v {
                Val::S(s) => log::add_thread_local_log_tag(n, s),
                Val::I(i) => log::add_thread_local_log_tag(n, i),
                Val::U(u) => log::add_thread_local_log_tag(n, u),
                Val::B(b) => log::add_thread_local_log_tag(n, b),
            }
            LRes { ok: true, ..Default::default() }
        }
        LOp::Clear => {
            log::clear_thread_local_log_tags();
            LRes { ok: true, ..Default::default() }
        }
        LOp::Log(level, msg, tags) => {
            let tv: Vec<Tag> = tags.iter().map(|(n, v)| v.tag(n)).collect();
            let r = match level {
                Level::Error => log::error(msg, tv),
                Level::Info => log::info(msg, tv),
                Level::Debug => log::debug(msg, tv),
            };
            LRes { ok: r.is_ok(), err: r.err().map(|e| format!("{e:?}")).unwrap_or_default(), ..Default::default() }
        }
        LOp::Wrapped { method, path, id, body_len, inner_log, result } => {
            let url = url::Url::parse(&format!("http://unknown{path}")).unwrap();
            let req = Request {
                id,
                remote_addr: SocketAddr::new(IpAddr::V4(Ipv4Addr::LOCALHOST), 9),
                method,
                url,
                headers: HeaderList::new(),
                cookies: HashMap::new(),
                content_type: ContentType::None,
                expect_continue: false,
                chunked: false,
                gzip: false,
                content_length: body_len,
                body: match body_len {
                    Some(n) => RequestBody::Vec(vec![b'x'; n as usize]),
                    None => RequestBody::PendingUnknown,
                },
            };
            let r = log::log_request_and_response(req, move |_req| {
                if let Some(m) = inner_log {
                    let _ = log::info(m, ());
                }
                match result {
                    HRes::Ok { code, body } => Ok(Response::text(code, body)),
                    HRes::Err { msg, tags, response } => {
                        let mut e = Error::new();
                        if let Some(m) = msg {
                            e = e.with_msg(m);
                        }
                        for (n, v) in tags {
                            e = match v {
                                Val::S(s) => e.with_tag(n, s),
                                Val::I(i) => e.with_tag(n, i),
                                Val::U(u) => e.with_tag(n, u),
                                Val::B(b) => e.with_tag(n, b),
                            };
                        }
                        if let Some((code, body)) = response {
                            e = e.with_response(Response::text(code, body));
                        }
                        Err(e)
                    }
                }
            });
            match r {
                Ok(resp) => {
                    let code = resp.code;
                    let body: Vec<u8> = resp.body.try_into().unwrap_or_default();
                    LRes { ok: true, response: Some((code, body)), ..Default::default() }
                }
                Err(e) => LRes { ok: false, err: format!("{e:?}"), ..Default::default() },
            }
        }
        LOp::Install(sender) => match log::set_global_logger(sender) {
            Ok(g) => LRes { ok: true, guard: Some(g), ..Default::default() },
            Err(e) => LRes { ok: false, err: format!("{e:?}"), ..Default::default() },
        },
        LOp::DropGuard(g) => {
            drop(g);
            LRes { ok: true, ..Default::default() }
        }
        LOp::DropGuardByUnwind(g) => {
            // (resume_unwind starts an unwind without running the panic hook)
            let _ = std::panic::catch_unwind(std::panic::AssertUnwindSafe(move || {
                let _held = g;
                std::panic::resume_unwind(Box::new("deliberate unwind through the guard's scope"));
            }));
            LRes { ok: true, ..Default::default() }
        }
        LOp::Quit => LRes::default(),
    }
}

// ------------------------------------------------------------------ model

#[derive(Clone, Debug, PartialEq)]
struct ExpEvent {
    level: &'static str,
    /// (name, rendered value); None = any numeric value
    tags: Vec<(String, Option<String>)>,
}

#[derive(Clone, Copy, Debug, PartialEq)]
enum Global {
    None,
    Default,
    Some(usize),
}

fn priority(name: &str) -> u8 {
    match name {
        "msg" => 0,
        "http_method" => 1,
        "path" => 2,
        "request_body_len" => 3,
        "request_body" => 4,
        "response_body_len" => 5,
        _ => 99,
    }
}

fn sorted(mut tags: Vec<(String, Option<String>)>) -> Vec<(String, Option<String>)> {
    tags.sort_by_key(|(n, _)| priority(n)); // stable
    tags
}

fn level_str(l: Level) -> &'static str {
    match l {
        Level::Error => "error",
        Level::Info => "info",
        Level::Debug => "debug",
    }
}

/// Parses one JSONL line written by the crate into ordered (name, raw value) pairs.
/// Values generated here never contain quotes, backslashes or commas inside strings.
fn parse_jsonl(line: &str) -> Option<Vec<(String, String)>> {
    let line = line.strip_suffix('\n')?;
    let inner = line.strip_prefix('{')?.strip_suffix('}')?;
    let mut out = Vec::new();
    let b = inner.as_bytes();
    let mut i = 0;
    while i < b.len() {
        if b[i] != b'"' {
            return None;
        }
        let j = inner[i + 1..].find('"')? + i + 1;
        let name = inner[i + 1..j].to_string();
        if b.get(j + 1) != Some(&b':') {
            return None;
        }
        let vstart = j + 2;
        let vend = if b.get(vstart) == Some(&b'"') {
            inner[vstart + 1..].find('"')? + vstart + 2
        } else {
            inner[vstart..].find(',').map(|k| k + vstart).unwrap_or(b.len())
        };
        out.push((name, inner[vstart..vend].to_string()));
        i = vend;
        if i < b.len() {
            if b[i] != b',' {
                return None;
            }
            i += 1;
        }
    }
    Some(out)
}

fn event_matches(ev: &LogEvent, exp: &ExpEvent) -> Result<(), String> {
    let mut buf = Vec::new();
    ev.write_jsonl(&mut buf).map_err(|e| e.to_string())?;
    let line = String::from_utf8_lossy(&buf).to_string();
    let pairs = parse_jsonl(&line).ok_or_else(|| format!("unparseable line {line:?}"))?;
    // the fixed members time, level, time_ns may sit anywhere; the rest are the tags, in order
    let find = |n: &str| pairs.iter().position(|(k, _)| k == n);
    let (ti, li, ni) = match (find("time"), find("level"), pairs.iter().rposition(|(k, _)| k == "time_ns")) {
        (Some(a), Some(b), Some(c)) => (a, b, c),
        _ => return Err(format!("fixed members time/level/time_ns missing in {line:?}")),
    };
    // ("error|info": either level is accepted)
    if !exp.level.split('|').any(|l| pairs[li].1 == format!("{l:?}")) {
        return Err(format!("level {} but {:?} expected", pairs[li].1, exp.level));
    }
    let got_vec: Vec<(String, String)> = pairs.iter().enumerate().filter(|(i, _)| *i != ti && *i != li && *i != ni).map(|(_, p)| p.clone()).collect();
    let got = &got_vec[..];
    let render = |t: &[(String, String)]| t.iter().map(|(n, v)| format!("{n}={v}")).collect::<Vec<_>>().join(" ");
    let render_exp = |t: &[(String, Option<String>)]| t.iter().map(|(n, v)| format!("{n}={}", v.clone().unwrap_or_else(|| "<number>".into()))).collect::<Vec<_>>().join(" ");
    if got.len() != exp.tags.len() {
        return Err(format!("tags [{}] but [{}] expected", render(got), render_exp(&exp.tags)));
    }
    for (g, e) in got.iter().zip(exp.tags.iter()) {
        let ok = g.0 == e.0
            && match &e.1 {
                Some(v) => &g.1 == v,
                None => !g.1.is_empty() && g.1.bytes().all(|b| b.is_ascii_digit()),
            };
        if !ok {
            return Err(format!("tags [{}] but [{}] expected", render(got), render_exp(&exp.tags)));
        }
    }
    Ok(())
}

// ------------------------------------------------------------------ stdout capture

struct StdoutCapture {
    saved: i32,
    read_end: std::fs::File,
}
impl StdoutCapture {
    fn begin() -> Option<StdoutCapture> {
        unsafe {
            let mut fds = [0i32; 2];
            if libc::pipe(fds.as_mut_ptr()) != 0 {
                return None;
            }
            let saved = libc::dup(1);
            if saved < 0 {
                return None;
            }
            libc::dup2(fds[1], 1);
            libc::close(fds[1]);
            let flags = libc::fcntl(fds[0], libc::F_GETFL);
            libc::fcntl(fds[0], libc::F_SETFL, flags | libc::O_NONBLOCK);
            Some(StdoutCapture { saved, read_end: std::fs::File::from_raw_fd(fds[0]) })
        }
    }
    /// Reads until `n` complete lines arrived (or the deadline passes).
    fn read_lines(&mut self, n: usize, deadline: Duration) -> Vec<String> {
        let start = Instant::now();
        let mut buf = Vec::new();
        loop {
            let mut chunk = [0u8; 4096];
            match self.read_end.read(&mut chunk) {
                Ok(0) => break,
                Ok(k) => buf.extend_from_slice(&chunk[..k]),
                Err(_) => {
                    let have = buf.iter().filter(|b| **b == b'\n').count();
                    if have >= n || start.elapsed() > deadline {
                        break;
                    }
                    std::thread::sleep(Duration::from_micros(200));
                }
            }
        }
        String::from_utf8_lossy(&buf).lines().map(str::to_string).collect()
    }
}
impl Drop for StdoutCapture {
    fn drop(&mut self) {
        use std::io::Write;
        let _ = std::io::stdout().flush();
        unsafe {
            libc::dup2(self.saved, 1);
            libc::close(self.saved);
        }
    }
}

/// Puts the process-wide logger into the `None` state whatever an earlier run left behind.
fn normalise_global() {
    // Written directly into the (public) state cell rather than through
    // set_global_logger + guard, so that a broken install path cannot leak one run's
    // state into the next run of the same worker process.
    let mut g = servlin::log::internal::lock_global_logger();
    *g = servlin::log::internal::GlobalLoggerState::None;
}

fn gen_val() -> Val {
    match gen::below(4) {
        0 => Val::S(format!("s{}", gen::below(50))),
        1 => Val::I(i64::from(gen::below(2000)) - 1000),
        2 => Val::U(u64::from(gen::below(100_000))),
        _ => Val::B(gen::ratio(1, 2)),
    }
}

fn gen_tags(max: u32) -> Vec<(&'static str, Val)> {
    (0..gen::below(max + 1)).map(|_| (NAMES[gen::below(NAMES.len() as u32) as usize], gen_val())).collect()
}

fn scenario(cfg: &RunCfg) -> Outcome {
    normalise_global();
    let nthreads = 1 + gen::below(8) as usize;
    let nops = 4 + gen::below(40) as usize;
    let cap = nops * 3 + 16;
    // fd 1 is always captured: the default logger's printer threads are real and may
    // still be draining when the run ends, so every run must consume exactly its own lines.
    let mut capture = StdoutCapture::begin();
    // threads
    let mut chans: Vec<(SyncSender<LOp>, Receiver<LRes>, std::thread::JoinHandle<()>)> = Vec::new();
    for _ in 0..nthreads {
        let (otx, orx) = sync_channel::<LOp>(1);
        let (rtx, rrx) = sync_channel::<LRes>(1);
        let h = std::thread::spawn(move || worker(orx, rtx));
        chans.push((otx, rrx, h));
    }
    // model
    let mut global = Global::None;
    let mut thread_tags: Vec<Vec<(String, Option<String>)>> = vec![Vec::new(); nthreads];
    let mut loggers: Vec<(Option<Receiver<LogEvent>>, Vec<ExpEvent>)> = Vec::new(); // receiver (None = dropped), pending expectations
    let mut guard: Option<ClearGlobalLoggerOnDrop> = None;
    let mut stdout_expected: Vec<ExpEvent> = Vec::new();
    let mut trace: Vec<String> = Vec::new();
    let mut events_checked = 0u64;
    let mut outcome: Option<Outcome> = None;

    // route one expected event according to the model; returns whether the call must succeed
    macro_rules! route {
        ($ev:expr) => {{
            let ev: ExpEvent = $ev;
            match global {
                Global::Some(k) => {
                    if loggers[k].0.is_some() {
                        loggers[k].1.push(ev);
                        true
                    } else {
                        false // logger stopped
                    }
                }
                Global::None | Global::Default => {
                    global = Global::Default;
                    stdout_expected.push(ev.clone());
                    true
                }
            }
        }};
    }

    'ops: for step in 0..nops {
        let t = gen::below(nthreads as u32) as usize;
        let kind = gen::weighted(&[3, 1, 8, 3, 2, 1, 1]);
        // build the op and the model's expectation
        let (op, expect_ok, expect_resp): (LOp, Option<bool>, Option<(u16, Vec<u8>)>) = match kind {
            0 => {
                let n = NAMES[gen::below(NAMES.len() as u32) as usize];
                let v = gen_val();
                thread_tags[t].push((n.to_string(), Some(v.render())));
                trace.push(format!("t{t}: add_thread_local_log_tag({n}, {})", v.render()));
                (LOp::AddTag(n, v), Some(true), None)
            }
            1 => {
                thread_tags[t].clear();
                trace.push(format!("t{t}: clear_thread_local_log_tags()"));
                (LOp::Clear, Some(true), None)
            }
            2 => {
                let level = gen::pick(&[Level::Error, Level::Info, Level::Debug]);
                let msg = format!("m{step}");
                // (one call in twelve carries 20-70 tags: "in the order given" must not depend
                // on how few tags an event has)
                let tags = if gen::ratio(1, 12) {
                    gen::count("probe.event_with_many_tags");
                    let n = 20 + gen::below(51);
                    (0..n).map(|_| (NAMES[gen::below(NAMES.len() as u32) as usize], gen_val())).collect()
                } else {
                    gen_tags(6)
                };
                let mut all: Vec<(String, Option<String>)> = vec![("msg".to_string(), Some(format!("{msg:?}")))];
                all.extend(tags.iter().map(|(n, v)| (n.to_string(), Some(v.render()))));
                all.extend(thread_tags[t].iter().cloned());
                let ok = route!(ExpEvent { level: level_str(level), tags: sorted(all) });
                trace.push(format!("t{t}: log {level} {msg} {:?} -> expect ok={ok}", tags.iter().map(|(n, v)| format!("{n}={}", v.render())).collect::<Vec<_>>()));
                (LOp::Log(level, msg, tags), Some(ok), None)
            }
            3 => {
                let method = gen::pick(&["GET", "POST"]).to_string();
                let path = format!("/p{}", gen::below(9));
                let id = u64::from(gen::below(1_000_000));
                let body_len = if gen::ratio(1, 4) { None } else { Some(u64::from(gen::below(30))) };
                let inner = if gen::ratio(1, 3) { Some(format!("inner{step}")) } else { None };
                let result = if gen::ratio(1, 2) {
                    HRes::Ok { code: gen::pick(&[200u16, 201, 404, 204, 303, 100, 499]), body: format!("b{}", gen::below(99)) }
                } else {
                    HRes::Err {
                        msg: if gen::ratio(1, 2) { Some(format!("boom{step}")) } else { None },
                        tags: gen_tags(3),
                        // (also non-failure statuses: handlers leave early with Err(redirect) and the like)
                        response: if gen::ratio(1, 2) { Some((gen::pick(&[400u16, 403, 503, 500, 404, 303, 200, 204, 100, 399]), format!("e{}", gen::below(9)))) } else { None },
                    }
                };
                // the wrapper starts from a clean per-thread tag set
                let mut tt: Vec<(String, Option<String>)> = vec![
                    ("http_method".into(), Some(format!("{method:?}"))),
                    ("path".into(), Some(format!("{path:?}"))),
                    ("request_id".into(), Some(id.to_string())),
                ];
                match body_len {
                    Some(n) => tt.push(("request_body_len".into(), Some(n.to_string()))),
                    None => tt.push(("request_body".into(), Some("\"pending\"".into()))),
                }
                let mut all_ok = true;
                if let Some(m) = &inner {
                    let mut all: Vec<(String, Option<String>)> = vec![("msg".to_string(), Some(format!("{m:?}")))];
                    all.extend(tt.iter().cloned());
                    // the inner call ignores a stopped logger (`let _ =`)
                    let _ = route!(ExpEvent { level: "info", tags: sorted(all) });
                }
                tt.push(("duration_ms".into(), None));
                let (level, mut call_tags, resp): (&'static str, Vec<(String, Option<String>)>, (u16, Vec<u8>)) = match &result {
                    HRes::Ok { code, body } => ("info", vec![("code".into(), Some(code.to_string())), ("response_body_len".into(), Some(body.len().to_string()))], (*code, body.clone().into_bytes())),
                    HRes::Err { msg, tags, response } => {
                        let mut ct: Vec<(String, Option<String>)> = tags.iter().map(|(n, v)| (n.to_string(), Some(v.render()))).collect();
                        if let Some(m) = msg {
                            ct.push(("msg".into(), Some(format!("{m:?}"))));
                        }
                        let (code, body) = match response {
                            Some((c, b)) => (*c, b.clone().into_bytes()),
                            None => (500, Vec::new()),
                        };
                        ct.push(("code".into(), Some(code.to_string())));
                        ct.push(("response_body_len".into(), Some(body.len().to_string())));
                        // an Err is logged at error level; for an Err that carries a non-failure
                        // response "accordingly" can be read either way, so both levels pass -
                        // the error's message and tags must be there in any case
                        (if code < 400 { "error|info" } else { "error" }, ct, (code, body))
                    }
                };
                call_tags.extend(tt.iter().cloned());
                if !route!(ExpEvent { level, tags: sorted(call_tags) }) {
                    all_ok = false;
                }
                thread_tags[t] = tt;
                trace.push(format!("t{t}: log_request_and_response({method} {path}, body_len={body_len:?}, inner_log={}, {result:?}) -> expect ok={all_ok}", inner.is_some()));
                (LOp::Wrapped { method, path, id, body_len, inner_log: inner, result }, Some(all_ok), if all_ok { Some(resp) } else { None })
            }
            4 => {
                let (s, r) = sync_channel::<LogEvent>(cap);
                let ok = !matches!(global, Global::Some(_));
                if ok {
                    loggers.push((Some(r), Vec::new()));
                    global = Global::Some(loggers.len() - 1);
                }
                trace.push(format!("t{t}: set_global_logger(new) -> expect ok={ok}"));
                (LOp::Install(s), Some(ok), None)
            }
            5 => match guard.take() {
                Some(g) => {
                    global = Global::None;
                    if gen::ratio(1, 4) {
                        gen::count("probe.guard_dropped_by_unwind");
                        trace.push(format!("t{t}: logger guard dropped by an unwind (panic caught further up)"));
                        (LOp::DropGuardByUnwind(g), Some(true), None)
                    } else {
                        trace.push(format!("t{t}: drop logger guard"));
                        (LOp::DropGuard(g), Some(true), None)
                    }
                }
                None => continue 'ops,
            },
            _ => {
                // the harness drops a receiver: that logger is stopped from now on
                let live: Vec<usize> = (0..loggers.len()).filter(|k| loggers[*k].0.is_some()).collect();
                if let Some(&k) = live.first() {
                    if !loggers[k].1.is_empty() {
                        continue 'ops;
                    }
                    loggers[k].0 = None;
                    gen::count("fault.logger_receiver_dropped");
                    trace.push(format!("harness: drop receiver of logger {k}"));
                }
                continue 'ops;
            }
        };
        // hand the baton to thread t and wait for it
        sim_core::heartbeat();
        if chans[t].0.send(op).is_err() {
            outcome = Some(Outcome { harness_error: Some("worker thread died".into()), ..Default::default() });
            break;
        }
        let res = match chans[t].1.recv_timeout(Duration::from_secs(20)) {
            Ok(r) => r,
            Err(_) => {
                outcome = Some(Outcome::fail("C18.call_returns", format!("a logging call did not return within 20 s (blocked?); steps: {trace:?}")));
                break;
            }
        };
        if let Some(p) = res.panicked {
            outcome = Some(Outcome::fail("C18.no_panic", format!("{p}; steps: {trace:?}")));
            break;
        }
        if let Some(g) = res.guard {
            guard = Some(g);
        }
        if let Some(want) = expect_ok {
            if res.ok != want {
                outcome = Some(Outcome::fail(
                    "C18.call_result",
                    format!("call returned ok={} ({}) but the model says ok={want}; steps: {trace:?}", res.ok, res.err),
                ));
                break;
            }
        }
        if let Some(want) = expect_resp {
            if res.response.as_ref() != Some(&want) {
                outcome = Some(Outcome::fail(
                    "C18.wrapper_returns_response",
                    format!("wrapper returned {:?}, expected status {} with {} body bytes; steps: {trace:?}", res.response.as_ref().map(|(c, b)| (c, b.len())), want.0, want.1.len()),
                ));
                break;
            }
        }
        // drain every receiver: exactly the expected events, nothing else
        for (k, (rx, exp)) in loggers.iter_mut().enumerate() {
            if let Some(rx) = rx {
                loop {
                    match rx.try_recv() {
                        Ok(ev) => {
                            if exp.is_empty() {
                                outcome = Some(Outcome::fail("C18.exactly_once", format!("logger {k} received an event nobody sent to it; steps: {trace:?}")));
                                break 'ops;
                            }
                            let want = exp.remove(0);
                            if let Err(e) = event_matches(&ev, &want) {
                                outcome = Some(Outcome::fail("C18.event_tags", format!("logger {k}: {e}; steps: {trace:?}")));
                                break 'ops;
                            }
                            events_checked += 1;
                        }
                        Err(TryRecvError::Empty) | Err(TryRecvError::Disconnected) => break,
                    }
                }
                if !exp.is_empty() {
                    outcome = Some(Outcome::fail("C18.exactly_once", format!("logger {k} did not receive {} expected event(s); steps: {trace:?}", exp.len())));
                    break 'ops;
                }
            }
        }
    }
    // tear down: threads, global state
    for (tx, _, _) in &chans {
        let _ = tx.send(LOp::Quit);
    }
    for (_, _, h) in chans {
        let _ = h.join();
    }
    drop(guard);
    normalise_global(); // a Default logger's sender is dropped here: its thread drains and exits
    if let Some(cap) = capture.as_mut() {
        if outcome.is_none() {
            // The printer threads are real and unsynchronised: wait until as many lines as
            // the model expects have arrived (a lost event shows up as a time-out here).
            let lines = cap.read_lines(stdout_expected.len(), Duration::from_secs(30));
            // The human-readable stdout format is not part of the property: every expected
            // event must be found in exactly one line that carries its level and all its
            // tag names and values, in order; no line may be left over.
            let mut unused: Vec<&String> = lines.iter().collect();
            let mut missing = None;
            // Lines of different printer threads arrive in an order the OS decides, and a
            // short pattern can also match a longer event's line: assign the most specific
            // (longest) patterns first and give each the shortest line that carries it.
            let mut by_specificity: Vec<&ExpEvent> = stdout_expected.iter().collect();
            by_specificity.sort_by_key(|e| std::cmp::Reverse(e.tags.iter().map(|(n, v)| n.len() + v.as_ref().map(|x| x.len()).unwrap_or(0)).sum::<usize>()));
            for ev in by_specificity {
                let matches = |l: &str| -> bool {
                    if !ev.level.split('|').any(|lv| l.contains(lv)) {
                        return false;
                    }
                    let mut pos = 0usize;
                    for (n, v) in &ev.tags {
                        match l[pos..].find(n.as_str()) {
                            Some(i) => pos += i + n.len(),
                            None => return false,
                        }
                        if let Some(v) = v {
                            match l[pos..].find(v.as_str()) {
                                Some(i) => pos += i + v.len(),
                                None => return false,
                            }
                        }
                    }
                    true
                };
                let best = unused.iter().enumerate().filter(|(_, l)| matches(l)).min_by_key(|(_, l)| l.len()).map(|(i, _)| i);
                match best {
                    Some(i) => {
                        unused.remove(i);
                    }
                    None => {
                        missing = Some(ev.clone());
                        break;
                    }
                }
            }
            if let Some(ev) = missing {
                outcome = Some(Outcome::fail(
                    "C18.stdout_default",
                    format!("with no logger installed the event {:?} must reach the stdout default, but no stdout line carries it ({} lines seen, {} expected: {:?}); steps: {trace:?}", ev.tags, lines.len(), stdout_expected.len(), lines),
                ));
            } else if !unused.is_empty() {
                outcome = Some(Outcome::fail(
                    "C18.stdout_default",
                    format!("stdout carries {} line(s) that no logging call accounts for, e.g. {:?}; steps: {trace:?}", unused.len(), unused[0]),
                ));
            } else if !stdout_expected.is_empty() {
                gen::count("probe.stdout_default_observed");
            }
        }
    }
    drop(capture);
    if let Some(o) = outcome {
        return o;
    }
    if events_checked > 0 {
        gen::count("probe.events_checked");
    }
    if nthreads >= 2 {
        gen::count("probe.multi_thread");
    }
    Outcome {
        nontrivial: events_checked >= 2,
        case_hash: sim_core::tape::fnv1a(format!("{trace:?}").as_bytes()),
        sample: if cfg.index < 2 { Some(json!({"threads": nthreads, "steps": trace.iter().take(10).collect::<Vec<_>>(), "events_checked": events_checked})) } else { None },
        ..Default::default()
    }
}

pub fn spec() -> PropertySpec {
    PropertySpec {
        id: "C18",
        level: "exploration",
        rule: "1-8 REAL OS threads, each executing one logging-API operation only when the seeded scheduler hands it the baton (parked-and-released: the choice of who runs is the tape's, the threads are real because thread-local tags are the point). Programs of 4-43 operations over {add thread tag, clear, error/info/debug with 0-6 tags from a pool that includes the prioritised names, log_request_and_response with Ok / Err (with/without response, tags, message) and an optional inner log call, set_global_logger with a fresh channel, drop the guard (normally or by an unwind that is caught further up), drop a receiver (logger stopped)}. Oracle: sequential reference model executed in baton order (global state None/Default/Some(k), per-thread tag lists, per-logger expected queues); after every operation all receivers are drained and compared: exactly one event per logging call in the right logger, tag order = call tags then the calling thread's tags, stably ordered by the fixed priority, none of another thread's tags, level and code per the wrapper rules, returned response, refusal of a second install, stopped logger => Err not panic. fd 1 is replaced by a pipe for the duration of every run and the stdout default's lines are compared as a multiset. distinct = hash of the operation trace; non-trivial = at least 2 events checked.",
        scenarios: vec![Scenario { name: "c18.threads", property: "C18", func: scenario, runs_quick: 100_000, runs_thorough: 2_500_000, doc: "baton-scheduled caller threads" }],
        required_probes: vec!["probe.events_checked", "probe.event_with_many_tags", "probe.guard_dropped_by_unwind", "probe.multi_thread", "probe.stdout_default_observed", "fault.logger_receiver_dropped"],
        components: json!({
            "real": ["/repo/src/log/** (unmodified)", "std::sync::Mutex, std::sync::mpsc, thread_local! (cannot be substituted)", "OS threads (parked and released one at a time)"],
            "simulated": ["the choice of which thread performs its next operation (seeded baton)"],
            "absent": ["interleavings INSIDE one logging call (each call touches shared state in one critical section today; a change that splits it is outside this check's reach)"]
        }),
        assumptions: vec![
            "channel capacity exceeds the run's operation count, so the blocking send inside log() can never stall the baton protocol",
            "tag values are JSON-safe (quoting is C17's matter); request_id and duration_ms are compared for presence and numeric type only",
            "stdout lines of different default-logger episodes are compared as a multiset (their printer threads are real and unsynchronised)",
        ],
    }
}
