//! C12 - connection limit is never exceeded and slots are conserved.

use super::httpgen::{Malf, Req, ReqKind};
use crate::engine::handler::{self, OnPending, OnReady, Plan, RespSpec};
use crate::engine::server::{Act, Client, Engine, Extras, Frag, Op, ServerCfg};
use crate::engine::stream::{drive, Drive};
use crate::gen;
use crate::oracle::http::parse_transcript;
use crate::run::{Outcome, RunCfg, Scenario, Violation};
use crate::spec::{components_server, PropertySpec};
use crate::util::RunDir;
use serde_json::json;
use servlin::internal::{Token, TokenSet};
use sim_core::net::AcceptFault;
use sim_core::with;
use std::time::Duration;

struct Limit {
    max_conns: usize,
    steps: u64,
    fault_at: Vec<(u64, AcceptFault, u32)>,
    cancel_at: Option<u64>,
    max_open: usize,
    max_jobs: usize,
    /// A connection task was cancelled: its already queued handler job is an orphan that
    /// belongs to no connection, so in-flight jobs no longer bound serviced connections.
    cancelled: bool,
}
impl Extras for Limit {
    fn enabled(&mut self, _eng: &Engine) -> Vec<u32> {
        let mut v = Vec::new();
        if self.fault_at.iter().any(|(t, _, _)| self.steps >= *t) {
            v.push(0);
        }
        if let Some(t) = self.cancel_at {
            if self.steps >= t && with(|w| w.tasks.keys().any(|k| *k >= 2)) {
                v.push(1);
            }
        }
        v
    }
    fn step(&mut self, _eng: &mut Engine, id: u32) {
        if id == 0 {
            if let Some(pos) = self.fault_at.iter().position(|(t, _, _)| self.steps >= *t) {
                let (_, f, n) = self.fault_at.remove(pos);
                with(|w| {
                    for _ in 0..n {
                        w.net.accept_faults.push_back(f);
                    }
                    w.note(format!("armed {n} accept faults {f:?}"));
                });
            }
        } else {
            let victims: Vec<u64> = with(|w| w.tasks.keys().copied().filter(|k| *k >= 2).collect());
            if !victims.is_empty() {
                sim_core::cancel_task(victims[gen::below(victims.len() as u32) as usize]);
                gen::count("fault.task_cancelled");
                self.cancelled = true;
            }
            self.cancel_at = None;
        }
    }
    fn after_step(&mut self, _eng: &mut Engine, _act: Act) -> Option<Violation> {
        self.steps += 1;
        let (open, jobs) = with(|w| (w.net.conns.iter().filter(|c| c.accepted && !c.server_closed).count(), w.jobs.len()));
        self.max_open = self.max_open.max(open);
        self.max_jobs = self.max_jobs.max(jobs);
        if open > self.max_conns {
            return Some(Violation {
                clause: "C12.limit_never_exceeded".into(),
                detail: format!("{open} connections are being serviced at once, max_conns={}", self.max_conns),
            });
        }
        if jobs > self.max_conns && !self.cancelled {
            return Some(Violation {
                clause: "C12.limit_never_exceeded".into(),
                detail: format!("{jobs} handler invocations are in flight at once, max_conns={}", self.max_conns),
            });
        }
        None
    }
}

fn ending_client(c: usize, s: usize, descr: &mut Vec<String>) -> Client {
    let path = format!("/e{c}");
    let mk = |kind: ReqKind, plan: Plan, method: &str| Req {
        path: path.clone(),
        method: method.into(),
        kind,
        expect: false,
        wait100: false,
        body_seed: 5,
        plan,
        extra_headers: vec![],
        raw_head: None,
        raw_body: None,
        meta: None,
    };
    let ok = |code: u16| Plan { on_pending: OnPending::GetBody(1_000_000), on_ready: OnReady::Respond, resp: RespSpec { code, body_len: 4, body_seed: 1, ctype: 1, headers: vec![] } };
    let ending = gen::below(12);
    let mut ops = vec![Op::Connect];
    let name;
    match ending {
        0 => {
            name = "normal close after 1-3 requests";
            let n = 1 + gen::below(3);
            for _ in 0..n {
                let r = mk(ReqKind::NoBody, ok(200), "GET");
                handler::set_plan(&r.path, r.plan.clone());
                ops.push(Op::Send(r.head()));
            }
            ops.push(Op::AwaitFinal(n as usize));
            ops.push(Op::Fin);
        }
        1 => {
            name = "error response (4xx/5xx from the handler)";
            let r = mk(ReqKind::NoBody, ok(gen::pick(&[404u16, 500, 503])), "GET");
            handler::set_plan(&r.path, r.plan.clone());
            ops.push(Op::Send(r.head()));
            ops.push(Op::AwaitFinal(1));
            ops.push(Op::Fin);
        }
        2 => {
            name = "handler panic";
            let mut p = ok(200);
            p.on_ready = OnReady::Panic;
            let r = mk(ReqKind::NoBody, p, "GET");
            handler::set_plan(&r.path, r.plan.clone());
            ops.push(Op::Send(r.head()));
            ops.push(Op::AwaitFinal(1));
            ops.push(Op::Fin);
        }
        3 => {
            name = "dropped by the handler";
            let mut p = ok(200);
            p.on_ready = OnReady::Drop;
            let r = mk(ReqKind::NoBody, p, "GET");
            handler::set_plan(&r.path, r.plan.clone());
            ops.push(Op::Send(r.head()));
            ops.push(Op::AwaitFinal(1));
            ops.push(Op::Fin);
        }
        4 => {
            name = "malformed request";
            let r = mk(ReqKind::Malformed(gen::pick(&Malf::ALL)), ok(200), "GET");
            // half of these clients do not read for a while: with a small socket buffer the
            // server's error response blocks, and the connection is still being serviced
            let stalls = gen::ratio(1, 2);
            if stalls {
                ops.push(Op::StopReading);
            }
            ops.push(Op::Send(r.head()));
            if stalls {
                ops.push(Op::Pause(5 + gen::below(60)));
                ops.push(Op::ResumeReading);
                gen::count("probe.client_stalls_before_reading_error_response");
            }
            ops.push(Op::AwaitFinal(1));
            ops.push(Op::Fin);
        }
        5 => {
            name = "client abort (RST) mid-head";
            let r = mk(ReqKind::NoBody, ok(200), "GET");
            let h = r.head();
            let cut = gen::below(h.len() as u32) as usize;
            ops.push(Op::Send(h[..cut].to_vec()));
            ops.push(Op::Pause(1 + gen::below(8)));
            ops.push(Op::Rst);
        }
        6 => {
            name = "client FIN mid-head";
            let r = mk(ReqKind::NoBody, ok(200), "GET");
            let h = r.head();
            let cut = gen::below(h.len() as u32) as usize;
            ops.push(Op::Send(h[..cut].to_vec()));
            ops.push(Op::Fin);
        }
        7 => {
            name = "client abort mid-body (small body)";
            let l = 1 + gen::below(s as u32) as usize;
            let r = mk(ReqKind::Known(l), ok(200), "POST");
            handler::set_plan(&r.path, r.plan.clone());
            ops.push(Op::Send(r.head()));
            let b = r.body();
            ops.push(Op::Send(b[..gen::below(l as u32) as usize].to_vec()));
            ops.push(Op::Pause(1 + gen::below(8)));
            ops.push(if gen::ratio(1, 2) { Op::Rst } else { Op::Close });
        }
        8 => {
            name = "client abort mid-upload (large body)";
            let l = s + 1 + gen::below(2000) as usize;
            let r = mk(if gen::ratio(1, 2) { ReqKind::Known(l) } else { ReqKind::Unknown(l) }, ok(200), "POST");
            handler::set_plan(&r.path, r.plan.clone());
            ops.push(Op::Send(r.head()));
            let b = r.body();
            ops.push(Op::Send(b[..gen::below(l as u32) as usize].to_vec()));
            ops.push(Op::Pause(1 + gen::below(8)));
            ops.push(if gen::ratio(1, 2) { Op::Rst } else { Op::Close });
        }
        9 => {
            name = "client abort while the response is written";
            let mut p = ok(200);
            p.resp.body_len = 20_000;
            let r = mk(ReqKind::NoBody, p, "GET");
            handler::set_plan(&r.path, r.plan.clone());
            ops.push(Op::Send(r.head()));
            ops.push(Op::AwaitBytes(1 + gen::below(3000) as usize));
            ops.push(if gen::ratio(1, 2) { Op::Rst } else { Op::Close });
        }
        10 => {
            // the handler answers with an event stream and the application keeps the sender:
            // the connection stays in service (and keeps its slot) for as long as it streams
            name = "event stream kept open by the application until the end of the run";
            let mut p = ok(200);
            p.on_ready = OnReady::EventStream;
            let r = mk(ReqKind::NoBody, p, "GET");
            handler::set_plan(&r.path, r.plan.clone());
            ops.push(Op::Send(r.head()));
            ops.push(Op::AwaitFinal(1));
            ops.push(Op::Fin);
            gen::count("probe.event_stream_holds_a_slot");
        }
        _ => {
            name = "connect and close without sending";
            ops.push(Op::Pause(1 + gen::below(5)));
            ops.push(if gen::ratio(1, 2) { Op::Close } else { Op::Rst });
        }
    }
    // A connection the SERVER ends (error response, 500 after a panic, drop, 400) frees its
    // slot whatever the client does afterwards: half of these clients read the answer and
    // then just stay there, silent, never closing.
    let mut lingers = "";
    if (1..=4).contains(&ending) && gen::ratio(1, 2) && matches!(ops.last(), Some(Op::Fin)) {
        ops.pop();
        lingers = "; the client then stays connected and silent";
        gen::count("probe.client_lingers_after_server_ended");
    }
    descr.push(format!("client {c}: {name}{lingers}"));
    let mut cl = Client::new(ops, gen::pick(&[Frag::Whole, Frag::Random]));
    cl.slow_read = gen::ratio(1, 4);
    cl
}

fn ex_faults_empty(f: &[(u64, AcceptFault, u32)]) -> bool {
    f.is_empty()
}

fn server_level(cfg: &RunCfg) -> Outcome {
    // the global logger is process-wide: start from 'none installed'
    {
        let mut g = servlin::log::internal::lock_global_logger();
        *g = servlin::log::internal::GlobalLoggerState::None;
    }
    let dir = RunDir::new("c12");
    let s = 64usize;
    let max_conns = 1 + gen::below(4) as usize;
    let scfg = ServerCfg { max_conns, small_body_len: s, cache_dir: Some(dir.path.clone()), with_permit: false };
    with(|w| {
        // (64: even a 100-byte error response does not fit the socket buffer of a client that is not reading)
        w.net.knobs.sock_cap = *w.tape.pick(&[262_144usize, 2048, 64]);
        w.net.knobs.short_io = w.tape.ratio(1, 2);
        w.net.knobs.spurious_pending_64 = *w.tape.pick(&[0u32, 0, 6]);
    });
    let mut eng = match Engine::start(scfg) {
        Ok(e) => e,
        Err(e) => return Outcome { harness_error: Some(e), ..Default::default() },
    };
    // In a share of the runs the application has installed a global logger whose receiving
    // end is gone (a stopped logger): accept failures are logged, and logging must not be
    // able to take the accept loop down.
    let stopped_logger = gen::ratio(1, 6);
    let _logger_guard = if stopped_logger {
        let (s, r) = std::sync::mpsc::sync_channel::<servlin::log::internal::LogEvent>(1);
        drop(r);
        servlin::log::set_global_logger(s).ok()
    } else {
        None
    };
    eng.weights.job_finish = gen::pick(&[1u32, 1, 4]);
    eng.weights.extra = 2;
    let nclients = max_conns * 2 + gen::below(max_conns as u32 + 1) as usize;
    let mut descr = Vec::new();
    for c in 0..nclients {
        let mut cl = ending_client(c, s, &mut descr);
        if gen::ratio(1, 2) {
            cl.ops.insert(0, Op::Pause(1 + gen::below(40)));
        }
        eng.add_client(cl);
    }
    let mut faults = Vec::new();
    if gen::ratio(1, 3) {
        for _ in 0..1 + gen::below(3) {
            let f = match gen::below(3) {
                0 => AcceptFault::Emfile,
                1 => AcceptFault::Aborted,
                _ => AcceptFault::Os(gen::pick(&sim_core::net::TRANSIENT_ACCEPT_ERRNOS)),
            };
            faults.push((u64::from(gen::below(200)), f, 1 + gen::below(4)));
        }
        descr.push(format!("accept faults {faults:?}"));
    }
    if stopped_logger {
        descr.push("a stopped global logger is installed".into());
        if !ex_faults_empty(&faults) {
            gen::count("probe.accept_failure_with_stopped_logger");
        }
    }
    let mut ex = Limit { max_conns, steps: 0, fault_at: faults, cancel_at: if gen::ratio(1, 6) { Some(u64::from(gen::below(200))) } else { None }, max_open: 0, max_jobs: 0, cancelled: false };
    if let Some(mut v) = eng.run(&mut ex) {
        v.detail = format!("{} ; history: {descr:?}", v.detail);
        return Outcome { violation: Some(v), nontrivial: true, ..Default::default() };
    }
    // the application lets go of its event-stream senders: the streams end, their slots
    // come back, clients that had to wait are served
    // (a client that had to wait may start a stream of its own: repeat)
    for _ in 0..16 {
        if handler::HANDLER.with(|h| h.borrow().senders.is_empty()) {
            break;
        }
        handler::HANDLER.with(|h| h.borrow_mut().senders.clear());
        if let Some(mut v) = eng.run(&mut ex) {
            v.detail = format!("{} ; history: {descr:?}", v.detail);
            return Outcome { violation: Some(v), nontrivial: true, ..Default::default() };
        }
    }
    if eng.hit_cap {
        return Outcome::fail("C12.terminates", format!("never quiesces; history: {descr:?}"));
    }
    if let Some(p) = eng.sut_panics().first() {
        return Outcome::fail("C12.no_task_panic", format!("{p}; history: {descr:?}"));
    }
    // all first-phase connections must be gone
    let open = with(|w| w.net.conns.iter().filter(|c| c.accepted && !c.server_closed).count());
    if open != 0 {
        return Outcome::fail(
            "C12.connection_released",
            format!("{open} connection(s) are still held by the server although every client has closed, reset or been answered; history: {descr:?}"),
        );
    }
    // Conservation probe: max_conns fresh connections must all reach their handler while
    // handlers are held; one more must not be admitted until a slot is released.
    with(|w| w.net.accept_faults.clear());
    ex.fault_at.clear();
    ex.cancel_at = None;
    eng.hold_jobs = true;
    let first_probe = eng.clients.len();
    for p in 0..max_conns + 1 {
        let path = format!("/probe{p}");
        handler::set_plan(&path, Plan::respond(200));
        eng.add_client(Client::new(vec![Op::Connect, Op::Send(format!("GET {path} HTTP/1.1\r\n\r\n").into_bytes()), Op::AwaitFinal(1), Op::Fin], Frag::Whole));
    }
    if let Some(mut v) = eng.run(&mut ex) {
        v.detail = format!("{} (during the conservation probe) ; history: {descr:?}", v.detail);
        return Outcome { violation: Some(v), nontrivial: true, ..Default::default() };
    }
    // count the probe connections whose handler job exists (queued or started)
    // (the first phase ran to quiescence with handlers released, so no older job is left)
    let in_handler = with(|w| w.jobs.len());
    if in_handler > max_conns {
        return Outcome::fail("C12.limit_never_exceeded", format!("{in_handler} probe connections reached their handler at once, max_conns={max_conns}; history: {descr:?}"));
    }
    if in_handler < max_conns {
        return Outcome::fail(
            "C12.slots_conserved",
            format!("after the history only {in_handler} of max_conns={max_conns} fresh connections reached their handler and the system is quiescent: a slot was lost; history: {descr:?}"),
        );
    }
    eng.hold_jobs = false;
    if let Some(mut v) = eng.run(&mut ex) {
        v.detail = format!("{} (after releasing the probe handlers) ; history: {descr:?}", v.detail);
        return Outcome { violation: Some(v), nontrivial: true, ..Default::default() };
    }
    for p in first_probe..eng.clients.len() {
        let (rs, _) = parse_transcript(&eng.clients[p].received);
        if rs.len() != 1 || rs[0].code != 200 {
            return Outcome::fail("C12.slots_conserved", format!("probe connection {} was never served after slots were released; history: {descr:?}", p - first_probe));
        }
    }
    if ex.max_open == max_conns {
        gen::count("probe.limit_reached");
    }
    if with(|w| w.counters.get("fault.accept_emfile").copied().unwrap_or(0)) > 0 {
        gen::count("probe.accept_failed_then_probe_passed");
    }
    Outcome {
        nontrivial: true,
        sample: if cfg.index < 2 { Some(json!({"max_conns": max_conns, "history": descr, "max_open_at_once": ex.max_open})) } else { None },
        ..Default::default()
    }
}

/// The slot pool driven directly against a counter model.
fn token_api(cfg: &RunCfg) -> Outcome {
    let size = 1 + gen::below(4) as usize;
    let mut ts = TokenSet::new(size);
    let mut held: Vec<Token> = Vec::new();
    let depth = 8 + gen::below(5);
    let mut log = Vec::new();
    for _ in 0..depth {
        let avail = size - held.len();
        match gen::below(3) {
            0 => {
                log.push("async_take");
                match drive(ts.async_wait_token(), 8) {
                    Drive::Done(t, _) => {
                        if avail == 0 {
                            return Outcome::fail("C12.pool_model", format!("async take succeeded with no unit available (size {size}); ops {log:?}"));
                        }
                        held.push(t);
                    }
                    Drive::Stalled(_) | Drive::Cap(_) => {
                        if avail > 0 {
                            return Outcome::fail("C12.pool_model", format!("async take blocks although {avail} of {size} units are free; ops {log:?}"));
                        }
                        // the pending wait was dropped (cancelled): it must not have consumed a unit
                    }
                    Drive::Panicked(m) => return Outcome::fail("C12.pool_no_panic", m),
                }
            }
            1 => {
                log.push("try_take");
                match ts.wait_token_timeout(Duration::ZERO) {
                    Ok(t) => {
                        if avail == 0 {
                            return Outcome::fail("C12.pool_model", format!("timed take succeeded with no unit available (size {size}); ops {log:?}"));
                        }
                        held.push(t);
                    }
                    Err(_) => {
                        if avail > 0 {
                            return Outcome::fail("C12.pool_model", format!("timed take timed out although {avail} of {size} units are free; ops {log:?}"));
                        }
                    }
                }
            }
            _ => {
                if !held.is_empty() {
                    log.push("drop");
                    let i = gen::below(held.len() as u32) as usize;
                    drop(held.swap_remove(i));
                }
            }
        }
    }
    // finally: everything returned -> exactly `size` takes succeed
    held.clear();
    let mut got = Vec::new();
    for _ in 0..size + 1 {
        if let Ok(t) = ts.wait_token_timeout(Duration::ZERO) {
            got.push(t);
        }
    }
    if got.len() != size {
        return Outcome::fail("C12.pool_model", format!("after returning every unit {} takes succeed, pool size is {size}; ops {log:?}", got.len()));
    }
    Outcome { nontrivial: true, case_hash: sim_core::tape::fnv1a(format!("{size}{log:?}").as_bytes()), sample: if cfg.index < 1 { Some(json!({"size": size, "ops": log})) } else { None }, ..Default::default() }
}

/// Exhaustive: every sequence of up to `depth` operations over {async take, timed take,
/// drop the i-th held unit (i < 4)} for pool sizes 1..=4, decoded from the run index.
fn token_api_enum(cfg: &RunCfg) -> Outcome {
    let depth = if cfg.tier == crate::run::Tier::Thorough { 8 } else { 6 };
    let mut idx = cfg.index;
    let size = 1 + (idx % 4) as usize;
    idx /= 4;
    let mut ts = TokenSet::new(size);
    let mut held: Vec<Token> = Vec::new();
    let mut log: Vec<u8> = Vec::new();
    for _ in 0..depth {
        let code = (idx % 6) as u8;
        idx /= 6;
        log.push(code);
        let avail = size - held.len();
        match code {
            0 => match drive(ts.async_wait_token(), 8) {
                Drive::Done(t, _) => {
                    if avail == 0 {
                        return Outcome::fail("C12.pool_model", format!("async take succeeded with no unit available (size {size}); op codes {log:?}"));
                    }
                    held.push(t);
                }
                Drive::Stalled(_) | Drive::Cap(_) => {
                    if avail > 0 {
                        return Outcome::fail("C12.pool_model", format!("async take blocks although {avail} of {size} units are free; op codes {log:?}"));
                    }
                }
                Drive::Panicked(m) => return Outcome::fail("C12.pool_no_panic", m),
            },
            1 => match ts.wait_token_timeout(Duration::ZERO) {
                Ok(t) => {
                    if avail == 0 {
                        return Outcome::fail("C12.pool_model", format!("timed take succeeded with no unit available (size {size}); op codes {log:?}"));
                    }
                    held.push(t);
                }
                Err(_) => {
                    if avail > 0 {
                        return Outcome::fail("C12.pool_model", format!("timed take timed out although {avail} of {size} units are free; op codes {log:?}"));
                    }
                }
            },
            c => {
                let i = (c - 2) as usize;
                if i < held.len() {
                    drop(held.remove(i));
                }
            }
        }
    }
    held.clear();
    let mut got = Vec::new();
    for _ in 0..size + 1 {
        if let Ok(t) = ts.wait_token_timeout(Duration::ZERO) {
            got.push(t);
        }
    }
    if got.len() != size {
        return Outcome::fail("C12.pool_model", format!("after returning every unit {} takes succeed, pool size is {size}; op codes {log:?}", got.len()));
    }
    Outcome { nontrivial: true, case_hash: cfg.index, sample: if cfg.index == 12345 { Some(json!({"size": size, "op_codes": log})) } else { None }, ..Default::default() }
}

pub fn spec() -> PropertySpec {
    PropertySpec {
        id: "C12",
        level: "exploration",
        rule: "Server level: max_conns 1-4, 2-3x as many simulated clients whose connections end in every listed way (normal close, handler 4xx/5xx, handler panic, dropped by the handler, malformed request, RST / FIN mid-head, abort mid-body, abort mid-upload, abort while the response is written, connect-and-close, an event stream that the application keeps open (it holds its slot until the senders are dropped just before the conservation probe); after a server-ended connection half of the clients stay connected and silent for ever) in tape-chosen orders and overlaps with handlers held 'running' for tape-chosen spans; accept failures injected by the simulated listener (EMFILE bursts: the connection stays in the backlog; ECONNABORTED: it is gone; a dozen other transient errnos - ENFILE, ENOBUFS, ENOMEM stay in the backlog, EPROTO, ENETDOWN, EHOSTUNREACH, ... are gone), each followed in the real code by a 500 ms virtual sleep, in a share of the runs with a stopped global logger installed (accept failures are logged); task cancellation. Per-step invariant: connections being serviced <= max_conns and handler invocations in flight <= max_conns. Conservation by quiescence: after the history, max_conns+1 fresh connections with held handlers - exactly max_conns must reach their handler, then all are served once handlers are released. API level: EVERY TokenSet/Token sequence to depth 6 (quick) / 8 (thorough) for pool sizes 1-4, plus sampled sequences of depth 8-12, over {async take (cancelled when it would block), timed take, drop i-th} against a counter model. distinct = schedule hash / op sequence.",
        scenarios: vec![
            Scenario { name: "c12.server", property: "C12", func: server_level, runs_quick: 300_000, runs_thorough: 8_000_000, doc: "server level" },
            Scenario { name: "c12.token_api_enum", property: "C12", func: token_api_enum, runs_quick: 4 * 46_656, runs_thorough: 4 * 1_679_616, doc: "every slot-pool op sequence to depth 6 (quick) / 8 (thorough)" },
            Scenario { name: "c12.token_api", property: "C12", func: token_api, runs_quick: 300_000, runs_thorough: 5_000_000, doc: "slot pool API vs counter model" },
        ],
        required_probes: vec!["probe.accept_failure_with_stopped_logger", "probe.limit_reached", "fault.accept_emfile", "fault.accept_aborted", "fault.accept_other_errno", "probe.client_lingers_after_server_ended", "probe.event_stream_holds_a_slot", "probe.accept_failed_then_probe_passed", "fault.client_rst", "job.panicked", "timer.sleep_for"],
        components: components_server(),
        assumptions: vec!["the kernel accept backlog is an unbounded queue in the simulated listener", "unbounded blocking pool: a held handler never starves another"],
    }
}
