pub mod c01;
pub mod c03;
pub mod c04;
pub mod c05;
pub mod c06;
pub mod c07;
pub mod c08;
pub mod c09;
pub mod c10;
pub mod c11;
pub mod c12;
pub mod c13;
pub mod c18;
#[cfg(servlin_verif)]
pub mod c19;
pub mod httpgen;
