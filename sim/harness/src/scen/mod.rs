pub mod c04;
pub mod c13;
pub mod httpgen;
