//! Driver: forks worker processes, aggregates their results, matches known findings,
//! minimises and re-verifies violations, writes replay and evidence files.

use crate::run::{execute, run_seed, RunCfg, RunResult, Scenario, TapeSrc, Tier, Violation};
use crate::spec::{property_spec, PropertySpec};
use serde_json::{json, Value};
use std::collections::{BTreeMap, HashSet};
use std::io::Write;
use std::path::{Path, PathBuf};
use std::process::{Command, Stdio};
use std::time::Instant;

pub const DEFAULT_SEED: u64 = 20_261_004;

pub fn verif_dir() -> PathBuf {
    std::env::var("VERIF_DIR").map(PathBuf::from).unwrap_or_else(|_| PathBuf::from("/verif"))
}

pub fn base_seed() -> u64 {
    std::env::var("VERIF_SEED").ok().and_then(|s| s.trim().parse::<u64>().ok()).unwrap_or(DEFAULT_SEED)
}

pub fn watchdog_secs() -> u64 {
    std::env::var("VERIF_WATCHDOG_SECS").ok().and_then(|s| s.parse().ok()).unwrap_or(120)
}

pub fn scratch_root() -> PathBuf {
    if let Ok(s) = std::env::var("VERIF_SCRATCH") {
        return PathBuf::from(s);
    }
    if Path::new("/dev/shm").is_dir() {
        PathBuf::from("/dev/shm")
    } else {
        std::env::temp_dir()
    }
}

// ------------------------------------------------------------------ known findings

#[derive(Clone, Debug)]
pub struct Finding {
    pub status: String,
    pub property: String,
    pub clause: String,
    pub pattern: String,
    pub what: String,
}

pub fn load_findings() -> Result<Vec<Finding>, String> {
    let p = verif_dir().join("known_findings.json");
    let text = match std::fs::read_to_string(&p) {
        Ok(t) => t,
        Err(_) => return Ok(Vec::new()),
    };
    let v: Value = serde_json::from_str(&text).map_err(|e| format!("known_findings.json: {e}"))?;
    let mut out = Vec::new();
    for f in v["findings"].as_array().cloned().unwrap_or_default() {
        out.push(Finding {
            status: f["status"].as_str().unwrap_or("").to_string(),
            property: f["property"].as_str().unwrap_or("").to_string(),
            clause: f["clause"].as_str().unwrap_or("").to_string(),
            pattern: f["match"].as_str().unwrap_or("").to_string(),
            what: f["what"].as_str().unwrap_or("").to_string(),
        });
    }
    Ok(out)
}

/// Index of the listed *known* (not fixed) finding that this violation is an instance of.
pub fn match_known(findings: &[Finding], v: &Violation) -> Option<usize> {
    findings.iter().position(|f| {
        f.status == "known" && f.clause == v.clause && (f.pattern.is_empty() || v.detail.contains(&f.pattern))
    })
}

// ------------------------------------------------------------------ watchdog bookkeeping

type Current = Option<(String, u64, Instant, Option<Vec<u32>>)>;
static CURRENT: std::sync::Mutex<Current> = std::sync::Mutex::new(None);

/// `execute`, with the run registered for the wall-clock watchdog (search runs, shrink
/// candidates and trace re-runs alike: a shrink candidate may be the one that loops).
fn watched_execute(sc: &Scenario, cfg: &RunCfg, src: TapeSrc) -> RunResult {
    let tape = match &src {
        TapeSrc::Replay(t) => Some(t.clone()),
        TapeSrc::Seed(_) => None,
    };
    sim_core::heartbeat();
    *CURRENT.lock().unwrap() = Some((sc.name.to_string(), cfg.index, Instant::now(), tape));
    let r = execute(sc, cfg, src);
    *CURRENT.lock().unwrap() = None;
    r
}

// ------------------------------------------------------------------ shrinking

fn fails_same(sc: &Scenario, cfg: &RunCfg, tape: &[u32], clause: &str, findings: &[Finding]) -> Option<RunResult> {
    let r = watched_execute(sc, cfg, TapeSrc::Replay(tape.to_vec()));
    match &r.violation {
        Some(v) if v.clause == clause && match_known(findings, v).is_none() => Some(r),
        _ => None,
    }
}

/// Hypothesis-style tape minimisation while the same oracle clause keeps failing.
pub fn shrink(sc: &Scenario, cfg: &RunCfg, tape: Vec<u32>, clause: &str, findings: &[Finding]) -> (Vec<u32>, u64) {
    let mut best = tape;
    let mut runs = 0u64;
    let budget = 3000u64;
    let started = Instant::now();
    let try_cand = |cand: Vec<u32>, best: &mut Vec<u32>, runs: &mut u64| -> bool {
        if *runs >= budget || started.elapsed().as_secs() > 60 {
            return false;
        }
        *runs += 1;
        if let Some(r) = fails_same(sc, cfg, &cand, clause, findings) {
            // Keep what the run actually consumed (never longer than the candidate).
            let mut used = r.tape;
            if used.len() > cand.len() {
                used.truncate(cand.len());
            }
            *best = if used.len() <= cand.len() { used } else { cand };
            true
        } else {
            false
        }
    };
    let mut improved = true;
    while improved && runs < budget {
        improved = false;
        // 1. truncate the tail
        let mut cut = best.len() / 2;
        while cut >= 1 {
            if best.len() > cut {
                let cand = best[..best.len() - cut].to_vec();
                if try_cand(cand, &mut best, &mut runs) {
                    improved = true;
                    continue;
                }
            }
            cut /= 2;
        }
        // 2. delete blocks
        for size in [16usize, 8, 4, 2, 1] {
            let mut i = 0;
            while i + size <= best.len() {
                let mut cand = best.clone();
                cand.drain(i..i + size);
                if try_cand(cand, &mut best, &mut runs) {
                    improved = true;
                } else {
                    i += 1;
                }
            }
        }
        // 3. zero, then lower, individual values
        let mut i = 0;
        while i < best.len() {
            if best[i] != 0 {
                let mut cand = best.clone();
                cand[i] = 0;
                if try_cand(cand, &mut best, &mut runs) {
                    improved = true;
                } else {
                    let mut lo = best[i] / 2;
                    while lo > 0 && i < best.len() && lo < best[i] {
                        let mut cand = best.clone();
                        cand[i] = lo;
                        if try_cand(cand, &mut best, &mut runs) {
                            improved = true;
                            lo = best.get(i).copied().unwrap_or(0) / 2;
                        } else {
                            break;
                        }
                    }
                }
            }
            i += 1;
        }
    }
    (best, runs)
}

// ------------------------------------------------------------------ worker

pub struct Agg {
    pub runs: u64,
    pub steps: u64,
    pub sim_ns: u128,
    pub counters: BTreeMap<String, u64>,
    pub hashes_all: Vec<u64>,
    pub hashes_nontrivial: Vec<u64>,
    pub samples: Vec<Value>,
    pub known_hits: BTreeMap<usize, u64>,
    pub violations: Vec<Value>,
    pub harness_errors: Vec<String>,
    pub per_scenario: BTreeMap<String, u64>,
}
impl Agg {
    fn new() -> Self {
        Agg {
            runs: 0,
            steps: 0,
            sim_ns: 0,
            counters: BTreeMap::new(),
            hashes_all: Vec::new(),
            hashes_nontrivial: Vec::new(),
            samples: Vec::new(),
            known_hits: BTreeMap::new(),
            violations: Vec::new(),
            harness_errors: Vec::new(),
            per_scenario: BTreeMap::new(),
        }
    }
}

fn runs_for(sc: &Scenario, tier: Tier) -> u64 {
    match tier {
        Tier::Quick => sc.runs_quick,
        Tier::Thorough => sc.runs_thorough,
    }
}

pub fn worker_main(prop: &str, tier: Tier, widx: u64, wcount: u64, out: &Path) -> i32 {
    sim_core::install_panic_hook();
    let spec = match property_spec(prop) {
        Some(s) => s,
        None => return 2,
    };
    let findings = load_findings().unwrap_or_default();
    let seed = base_seed();
    let mut agg = Agg::new();
    // Watchdog: a task that loops without ever yielding cannot be interrupted by the
    // simulator; a run that exceeds the wall-clock bound is reported as non-termination
    // (the only verdict in this framework that depends on wall time).
    {
        let out = out.to_path_buf();
        let prop = prop.to_string();
        let limit = watchdog_secs();
        std::thread::spawn(move || loop {
            std::thread::sleep(std::time::Duration::from_millis(500));
            let cur = CURRENT.lock().unwrap().clone();
            if let Some((scen, idx, _started, tape)) = cur {
                // the harness regains control (and beats) between any two calls into the system
                // under test; silence for this long means ONE such call never returned
                if sim_core::since_heartbeat_ms() >= limit * 1000 {
                    let v = json!({
                        "property": prop, "scenario": scen, "tier": tier.as_str(), "index": idx, "seed": seed,
                        "clause": format!("{prop}.run_terminates"),
                        "detail": format!("a single call into the system under test did not return within {limit} s of wall time: it loops without yielding or blocks the executor thread (scenario {scen}, index {idx})"),
                        "tape": match tape { Some(t) => json!(t), None => Value::Null }, "trace": [],
                    });
                    let _ = std::fs::write(out.with_extension("hang"), serde_json::to_string(&v).unwrap());
                    std::process::exit(3);
                }
            }
        });
    }
    let scale: f64 = std::env::var("VERIF_SCALE").ok().and_then(|s| s.parse().ok()).unwrap_or(1.0);
    let only = std::env::var("VERIF_ONLY").ok();
    'outer: for sc in &spec.scenarios {
        if only.as_deref().map(|o| o != sc.name).unwrap_or(false) {
            continue;
        }
        let n = ((runs_for(sc, tier) as f64) * scale).ceil() as u64;
        let mut idx = widx;
        while idx < n {
            let cfg = RunCfg {
                tier,
                index: idx,
                keep_trace: false,
            };
            let r = watched_execute(sc, &cfg, TapeSrc::Seed(run_seed(seed, sc.name, idx)));
            agg.runs += 1;
            *agg.per_scenario.entry(sc.name.to_string()).or_insert(0) += 1;
            agg.steps += r.steps;
            agg.sim_ns += u128::from(r.sim_ns);
            for (k, v) in &r.counters {
                *agg.counters.entry(k.clone()).or_insert(0) += v;
            }
            agg.hashes_all.push(r.sched_hash);
            if r.nontrivial {
                agg.hashes_nontrivial.push(r.sched_hash);
            }
            if let Some(s) = r.sample {
                if agg.samples.len() < 3 {
                    agg.samples.push(json!({"scenario": sc.name, "index": idx, "case": s}));
                }
            }
            if let Some(e) = r.harness_error {
                agg.harness_errors.push(format!("{} #{idx}: {e}", sc.name));
                if agg.harness_errors.len() > 5 {
                    break 'outer;
                }
            }
            if let Some(v) = r.violation {
                if let Some(k) = match_known(&findings, &v) {
                    *agg.known_hits.entry(k).or_insert(0) += 1;
                } else {
                    // minimise, then render the trace of the minimised run
                    let (small, shrink_runs) = shrink(sc, &cfg, r.tape.clone(), &v.clause, &findings);
                    let tcfg = RunCfg {
                        keep_trace: true,
                        ..cfg.clone()
                    };
                    let rr = watched_execute(sc, &tcfg, TapeSrc::Replay(small.clone()));
                    let (vv, trace, tape) = match rr.violation {
                        Some(vv) if vv.clause == v.clause => (vv, rr.trace, small),
                        _ => {
                            // shrinking lost it (should not happen); fall back to the original
                            let rr2 = watched_execute(sc, &tcfg, TapeSrc::Replay(r.tape.clone()));
                            (rr2.violation.unwrap_or(v.clone()), rr2.trace, r.tape.clone())
                        }
                    };
                    agg.violations.push(json!({
                        "property": sc.property,
                        "scenario": sc.name,
                        "tier": tier.as_str(),
                        "index": idx,
                        "seed": seed,
                        "clause": vv.clause,
                        "detail": vv.detail,
                        "original_tape_len": r.tape.len(),
                        "shrink_runs": shrink_runs,
                        "tape": tape,
                        "trace": trace,
                    }));
                    if agg.violations.len() >= 2 {
                        break 'outer;
                    }
                }
            }
            idx += wcount;
        }
    }
    // write result
    let mut hashes_all = agg.hashes_all;
    hashes_all.sort_unstable();
    hashes_all.dedup();
    let mut hashes_nt = agg.hashes_nontrivial;
    hashes_nt.sort_unstable();
    hashes_nt.dedup();
    let known: BTreeMap<String, u64> = agg.known_hits.iter().map(|(k, v)| (k.to_string(), *v)).collect();
    let res = json!({
        "runs": agg.runs,
        "steps": agg.steps,
        "sim_ns": agg.sim_ns.to_string(),
        "counters": agg.counters,
        "samples": agg.samples,
        "known_hits": known,
        "violations": agg.violations,
        "harness_errors": agg.harness_errors,
        "per_scenario": agg.per_scenario,
    });
    let mut f = match std::fs::File::create(out) {
        Ok(f) => f,
        Err(_) => return 2,
    };
    if f.write_all(serde_json::to_string(&res).unwrap().as_bytes()).is_err() {
        return 2;
    }
    let dump = |p: PathBuf, v: &[u64]| {
        let mut bytes = Vec::with_capacity(v.len() * 8);
        for h in v {
            bytes.extend_from_slice(&h.to_le_bytes());
        }
        std::fs::write(p, bytes)
    };
    let _ = dump(out.with_extension("all"), &hashes_all);
    let _ = dump(out.with_extension("nt"), &hashes_nt);
    0
}

fn read_hashes(p: &Path, into: &mut HashSet<u64>) {
    if let Ok(bytes) = std::fs::read(p) {
        for c in bytes.chunks_exact(8) {
            into.insert(u64::from_le_bytes(c.try_into().unwrap()));
        }
    }
}

// ------------------------------------------------------------------ check

pub fn check_main(prop: &str, tier: Tier) -> i32 {
    let started = Instant::now();
    let spec: PropertySpec = match property_spec(prop) {
        Some(s) => s,
        None => {
            eprintln!("unknown or unclaimed property {prop}");
            return 2;
        }
    };
    let findings = match load_findings() {
        Ok(f) => f,
        Err(e) => {
            eprintln!("HARNESS-ERROR {e}");
            return 2;
        }
    };
    let seed = base_seed();
    let workers: u64 = std::env::var("VERIF_WORKERS")
        .ok()
        .and_then(|s| s.parse().ok())
        .unwrap_or_else(|| std::thread::available_parallelism().map(|n| n.get() as u64).unwrap_or(8));
    let scratch = scratch_root().join(format!("simcheck-{}-{}", prop, std::process::id()));
    let _ = std::fs::remove_dir_all(&scratch);
    if std::fs::create_dir_all(&scratch).is_err() {
        eprintln!("HARNESS-ERROR cannot create scratch dir {scratch:?}");
        return 2;
    }
    let exe = std::env::current_exe().expect("current_exe");
    let mut children = Vec::new();
    for w in 0..workers {
        let out = scratch.join(format!("w{w}.json"));
        let child = Command::new(&exe)
            .arg("worker")
            .arg(prop)
            .arg(tier.as_str())
            .arg(w.to_string())
            .arg(workers.to_string())
            .arg(&out)
            .env("VERIF_SCRATCH_RUN", scratch.join(format!("w{w}")))
            .stdin(Stdio::null())
            .stdout(Stdio::null())
            .stderr(Stdio::inherit())
            .spawn();
        match child {
            Ok(c) => children.push((w, c, out)),
            Err(e) => {
                eprintln!("HARNESS-ERROR cannot spawn worker: {e}");
                return 2;
            }
        }
    }
    let mut harness_errors: Vec<String> = Vec::new();
    let mut runs = 0u64;
    let mut steps = 0u64;
    let mut sim_ns: u128 = 0;
    let mut counters: BTreeMap<String, u64> = BTreeMap::new();
    let mut per_scenario: BTreeMap<String, u64> = BTreeMap::new();
    let mut samples: Vec<Value> = Vec::new();
    let mut known_hits: BTreeMap<usize, u64> = BTreeMap::new();
    let mut violations: Vec<Value> = Vec::new();
    let mut all: HashSet<u64> = HashSet::new();
    let mut nt: HashSet<u64> = HashSet::new();
    for (w, mut c, out) in children {
        let status = c.wait();
        let ok = matches!(&status, Ok(s) if s.success());
        if matches!(&status, Ok(s) if s.code() == Some(3)) {
            if let Ok(text) = std::fs::read_to_string(out.with_extension("hang")) {
                if let Ok(v) = serde_json::from_str::<Value>(&text) {
                    violations.push(v);
                    continue;
                }
            }
        }
        if !ok {
            harness_errors.push(format!("worker {w} exited with {status:?}"));
            continue;
        }
        let text = std::fs::read_to_string(&out).unwrap_or_default();
        let v: Value = match serde_json::from_str(&text) {
            Ok(v) => v,
            Err(e) => {
                harness_errors.push(format!("worker {w} result unreadable: {e}"));
                continue;
            }
        };
        runs += v["runs"].as_u64().unwrap_or(0);
        steps += v["steps"].as_u64().unwrap_or(0);
        sim_ns += v["sim_ns"].as_str().and_then(|s| s.parse::<u128>().ok()).unwrap_or(0);
        if let Some(m) = v["counters"].as_object() {
            for (k, val) in m {
                *counters.entry(k.clone()).or_insert(0) += val.as_u64().unwrap_or(0);
            }
        }
        if let Some(m) = v["per_scenario"].as_object() {
            for (k, val) in m {
                *per_scenario.entry(k.clone()).or_insert(0) += val.as_u64().unwrap_or(0);
            }
        }
        if let Some(m) = v["known_hits"].as_object() {
            for (k, val) in m {
                *known_hits.entry(k.parse().unwrap_or(usize::MAX)).or_insert(0) += val.as_u64().unwrap_or(0);
            }
        }
        for s in v["samples"].as_array().cloned().unwrap_or_default() {
            if samples.len() < 4 {
                samples.push(s);
            }
        }
        for x in v["violations"].as_array().cloned().unwrap_or_default() {
            violations.push(x);
        }
        for e in v["harness_errors"].as_array().cloned().unwrap_or_default() {
            harness_errors.push(e.as_str().unwrap_or("").to_string());
        }
        read_hashes(&out.with_extension("all"), &mut all);
        read_hashes(&out.with_extension("nt"), &mut nt);
    }
    let _ = std::fs::remove_dir_all(&scratch);

    // Report known findings that were re-observed.
    for (k, n) in &known_hits {
        if let Some(f) = findings.get(*k) {
            println!("KNOWN-FINDING: property={} {} [clause {}, seen in {} runs]", f.property, f.what, f.clause, n);
        }
    }

    // Violations: de-duplicate by clause, write replay files, re-verify in a fresh process.
    violations.sort_by_key(|v| (v["tape"].as_array().map(|a| a.len()).unwrap_or(0), v["index"].as_u64().unwrap_or(0)));
    let mut seen_clauses: HashSet<String> = HashSet::new();
    let mut confirmed = 0;
    let replay_dir = verif_dir().join("replays");
    let _ = std::fs::create_dir_all(&replay_dir);
    for v in &violations {
        let clause = v["clause"].as_str().unwrap_or("").to_string();
        if !seen_clauses.insert(clause.clone()) {
            continue;
        }
        let tape_hash = sim_core::tape::fnv1a(serde_json::to_string(&v["tape"]).unwrap().as_bytes());
        let path = replay_dir.join(format!("{}-{}-{:08x}.json", prop, seed, tape_hash as u32));
        if std::fs::write(&path, serde_json::to_string_pretty(v).unwrap()).is_err() {
            harness_errors.push(format!("cannot write replay file {path:?}"));
            continue;
        }
        // fresh-process confirmation
        let st = Command::new(&exe)
            .arg("replay")
            .arg(&path)
            .stdin(Stdio::null())
            .stdout(Stdio::null())
            .stderr(Stdio::null())
            .status();
        match st {
            Ok(s) if s.code() == Some(1) => {
                confirmed += 1;
                println!("VIOLATION property={} replay={}", prop, path.display());
                println!("  clause={} detail={}", clause, v["detail"].as_str().unwrap_or(""));
            }
            other => {
                harness_errors.push(format!(
                    "violation of {clause} did not reproduce in a fresh process ({other:?}); replay file {path:?} kept"
                ));
            }
        }
    }

    // Reach: probes that must have fired.
    let mut missing_probes = Vec::new();
    for p in &spec.required_probes {
        if counters.get(*p).copied().unwrap_or(0) == 0 {
            missing_probes.push((*p).to_string());
        }
    }
    if !missing_probes.is_empty() && confirmed == 0 {
        harness_errors.push(format!("required probes never fired: {missing_probes:?}"));
    }

    let wall = started.elapsed().as_secs_f64();
    let fault_counts: BTreeMap<&String, &u64> = counters.iter().filter(|(k, _)| k.starts_with("fault.")).collect();
    let probe_counts: BTreeMap<&String, &u64> = counters.iter().filter(|(k, _)| !k.starts_with("fault.")).collect();
    let known_list: Vec<Value> = known_hits
        .iter()
        .filter_map(|(k, n)| findings.get(*k).map(|f| json!({"clause": f.clause, "what": f.what, "runs": n})))
        .collect();
    let evidence = json!({
        "property_id": prop,
        "tier": tier.as_str(),
        "seed": seed,
        "level": spec.level,
        "coverage": {
            "evaluations": runs,
            "distinct_nontrivial": nt.len(),
            "distinct_schedules_or_cases": all.len(),
            "rule": spec.rule,
            "samples": samples,
            "runs_per_scenario": per_scenario,
            "scenarios": spec.scenarios.iter().map(|sc| json!({"name": sc.name, "what": sc.doc, "runs_this_tier": runs_for(sc, tier)})).collect::<Vec<_>>(),
            "scheduler_steps": steps,
            "simulated_seconds": (sim_ns as f64) / 1e9,
            "runs_per_hour": if wall > 0.0 { (runs as f64) * 3600.0 / wall } else { 0.0 },
            "faults_fired": fault_counts,
            "probes": probe_counts,
            "required_probes": spec.required_probes,
            "known_findings_observed": known_list,
            "components": spec.components,
            "workers": workers,
        },
        "assumptions": spec.assumptions,
        "wall_s": wall,
        "violations": confirmed,
        "harness_errors": harness_errors,
    });
    let ev_dir = verif_dir().join("evidence");
    let _ = std::fs::create_dir_all(&ev_dir);
    if std::fs::write(ev_dir.join(format!("{prop}.json")), serde_json::to_string_pretty(&evidence).unwrap()).is_err() {
        eprintln!("HARNESS-ERROR cannot write evidence file");
        return 2;
    }
    println!(
        "{prop} {}: runs={runs} distinct={} nontrivial_distinct={} steps={steps} sim_s={:.1} wall_s={wall:.1} violations={confirmed}",
        tier.as_str(),
        all.len(),
        nt.len(),
        (sim_ns as f64) / 1e9
    );
    if confirmed > 0 {
        return 1;
    }
    if !harness_errors.is_empty() {
        for e in &harness_errors {
            eprintln!("HARNESS-ERROR {e}");
        }
        return 2;
    }
    0
}

// ------------------------------------------------------------------ replay

pub fn replay_main(path: &Path) -> i32 {
    sim_core::install_panic_hook();
    let text = match std::fs::read_to_string(path) {
        Ok(t) => t,
        Err(e) => {
            eprintln!("HARNESS-ERROR cannot read {path:?}: {e}");
            return 2;
        }
    };
    let v: Value = match serde_json::from_str(&text) {
        Ok(v) => v,
        Err(e) => {
            eprintln!("HARNESS-ERROR cannot parse {path:?}: {e}");
            return 2;
        }
    };
    let prop = v["property"].as_str().unwrap_or("");
    let scen = v["scenario"].as_str().unwrap_or("");
    let tier = if v["tier"].as_str() == Some("thorough") { Tier::Thorough } else { Tier::Quick };
    let index = v["index"].as_u64().unwrap_or(0);
    let clause = v["clause"].as_str().unwrap_or("");
    let seed_mode = v["tape"].is_null();
    let tape: Vec<u32> = v["tape"]
        .as_array()
        .map(|a| a.iter().map(|x| x.as_u64().unwrap_or(0) as u32).collect())
        .unwrap_or_default();
    {
        // same wall-clock bound as in search mode
        let limit = watchdog_secs();
        let path = path.to_path_buf();
        let prop = prop.to_string();
        let clause = clause.to_string();
        sim_core::heartbeat();
        std::thread::spawn(move || loop {
            std::thread::sleep(std::time::Duration::from_millis(500));
            if sim_core::since_heartbeat_ms() >= limit * 1000 {
                println!("VIOLATION property={} replay={}", prop, path.display());
                println!("  clause={clause} detail=a single call into the system under test did not return within {limit} s of wall time");
                std::process::exit(1);
            }
        });
    }
    let spec = match property_spec(prop) {
        Some(s) => s,
        None => {
            eprintln!("HARNESS-ERROR unknown property {prop}");
            return 2;
        }
    };
    let sc = match spec.scenarios.iter().find(|s| s.name == scen) {
        Some(s) => s,
        None => {
            eprintln!("HARNESS-ERROR unknown scenario {scen}");
            return 2;
        }
    };
    let cfg = RunCfg {
        tier,
        index,
        keep_trace: true,
    };
    let src = if seed_mode { TapeSrc::Seed(run_seed(v["seed"].as_u64().unwrap_or(DEFAULT_SEED), sc.name, index)) } else { TapeSrc::Replay(tape) };
    let r = execute(sc, &cfg, src);
    for line in &r.trace {
        println!("{line}");
    }
    if let Some(e) = r.harness_error {
        eprintln!("HARNESS-ERROR {e}");
        return 2;
    }
    match r.violation {
        Some(vv) if vv.clause == clause => {
            println!("VIOLATION property={} replay={}", prop, path.display());
            println!("  clause={} detail={}", vv.clause, vv.detail);
            1
        }
        Some(vv) => {
            println!("replay produced a different violation: clause={} detail={}", vv.clause, vv.detail);
            println!("VIOLATION property={} replay={}", prop, path.display());
            1
        }
        None => {
            println!("replay: no violation (the recorded violation of {clause} does not occur on this tree)");
            0
        }
    }
}

// ------------------------------------------------------------------ determinism fingerprints

/// Prints one line per run (scenario, index, schedule hash, tape hash, steps, verdict) for
/// runs `from..to` of every scenario of the property; `stride`/`offset` select a subset
/// so that different process layouts can be compared line by line.
pub fn fingerprint_main(prop: &str, tier: Tier, from: u64, to: u64, offset: u64, stride: u64, out: &Path) -> i32 {
    sim_core::install_panic_hook();
    let spec = match property_spec(prop) {
        Some(s) => s,
        None => return 2,
    };
    let seed = base_seed();
    let mut text = String::new();
    let only = std::env::var("VERIF_ONLY").ok();
    for sc in &spec.scenarios {
        if only.as_deref().map(|o| o != sc.name).unwrap_or(false) {
            continue;
        }
        let mut idx = from + offset;
        while idx < to {
            let cfg = RunCfg { tier, index: idx, keep_trace: false };
            let r = execute(sc, &cfg, TapeSrc::Seed(run_seed(seed, sc.name, idx)));
            let mut th = 0u64;
            for v in &r.tape {
                th = sim_core::tape::mix(th, u64::from(*v));
            }
            let counters = r.counters.iter().map(|(k, v)| format!("{k}={v}")).collect::<Vec<_>>().join(",");
            text.push_str(&format!(
                "{} {} {:016x} {:016x} {} {} {} [{}]\n",
                sc.name,
                idx,
                r.sched_hash,
                th,
                r.steps,
                r.sim_ns,
                r.violation.map(|v| v.clause).unwrap_or_else(|| "-".into()),
                counters
            ));
            idx += stride;
        }
    }
    if std::fs::write(out, text).is_err() {
        return 2;
    }
    0
}
