use std::path::{Path, PathBuf};

/// A private directory for one run, removed on drop. Lives under the worker's scratch
/// directory (tmpfs when available); nothing in it is needed across commands.
pub struct RunDir {
    pub path: PathBuf,
}
impl RunDir {
    pub fn new(tag: &str) -> RunDir {
        let base = std::env::var("VERIF_SCRATCH_RUN")
            .map(PathBuf::from)
            .unwrap_or_else(|_| crate::driver::scratch_root().join(format!("simcheck-solo-{}", std::process::id())));
        let path = base.join(tag);
        let _ = std::fs::remove_dir_all(&path);
        std::fs::create_dir_all(&path).expect("create run dir");
        RunDir { path }
    }
    pub fn list(&self) -> Vec<String> {
        list_dir(&self.path)
    }
}
impl Drop for RunDir {
    fn drop(&mut self) {
        let _ = std::fs::remove_dir_all(&self.path);
        // remove the solo base if empty (replay mode)
        if let Some(parent) = self.path.parent() {
            if parent.file_name().map(|n| n.to_string_lossy().starts_with("simcheck-solo-")).unwrap_or(false) {
                let _ = std::fs::remove_dir(parent);
            }
        }
    }
}

pub fn list_dir(p: &Path) -> Vec<String> {
    let mut v: Vec<String> = std::fs::read_dir(p)
        .map(|rd| rd.filter_map(|e| e.ok()).map(|e| e.file_name().to_string_lossy().to_string()).collect())
        .unwrap_or_default();
    v.sort();
    v
}
