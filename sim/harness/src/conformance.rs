//! Conformance smoke test of the simulator itself: scenarios of the repository's own
//! loopback suite (tests/handler.rs, tests/event.rs) transcribed as simulator workloads;
//! the byte transcript the simulated client receives must equal the literal the real
//! suite asserts over real TCP. Guards against the substitute crates misrepresenting the
//! real ones.

use crate::engine::handler;
use crate::engine::server::{Client, Engine, Frag, NoExtras, Op, ServerCfg};
use servlin::{ContentType, Event, Request, Response};

type H = Box<dyn Fn(&Request) -> Response>;

fn run_case(name: &str, request: &[u8], handler_fn: Option<H>, pending: Option<handler::Plan>, expect: &[u8], prefix_only: bool) -> Result<(), String> {
    sim_core::begin(sim_core::Tape::search(1));
    let dir = crate::util::RunDir::new("conformance");
    let res = (|| {
        let mut eng = Engine::start(ServerCfg { max_conns: 4, small_body_len: 64 * 1024, cache_dir: Some(dir.path.clone()), with_permit: false })?;
        if let Some(f) = handler_fn {
            handler::HANDLER.with(|h| h.borrow_mut().custom = Some(f));
        }
        handler::HANDLER.with(|h| h.borrow_mut().default_plan = Some(pending.unwrap_or(handler::Plan::respond(200))));
        eng.add_client(Client::new(vec![Op::Connect, Op::Send(request.to_vec()), Op::Fin], Frag::Whole));
        eng.run(&mut NoExtras);
        let got = eng.clients[0].received.clone();
        let ok = if prefix_only { got.starts_with(expect) } else { got == expect };
        if ok {
            Ok(())
        } else {
            Err(format!("{name}: simulated client received {:?}, the real suite asserts {:?}", String::from_utf8_lossy(&got), String::from_utf8_lossy(expect)))
        }
    })();
    drop(sim_core::end());
    res
}

pub fn main() -> i32 {
    sim_core::install_panic_hook();
    let get = b"M / HTTP/1.1\r\n\r\n";
    let mut failures = Vec::new();
    let mut n = 0;
    let mut case = |name: &str, req: &[u8], h: Option<H>, p: Option<handler::Plan>, exp: &[u8], prefix: bool| {
        n += 1;
        if let Err(e) = run_case(name, req, h, p, exp, prefix) {
            failures.push(e);
        }
    };
    case("handler::empty", get, Some(Box::new(|_| Response::new(200))), None, b"HTTP/1.1 200 OK\r\ncontent-length: 0\r\n\r\n", false);
    case("handler::unknown_code", get, Some(Box::new(|_| Response::new(9999))), None, b"HTTP/1.1 9999 Response\r\ncontent-length: 0\r\n\r\n", false);
    case(
        "handler::text",
        get,
        Some(Box::new(|_| Response::text(200, "abc def\tghi\rjkl\nmno\r\npqr\r\n\r\nstu"))),
        None,
        b"HTTP/1.1 200 OK\r\ncontent-type: text/plain; charset=UTF-8\r\ncontent-length: 31\r\n\r\nabc def\tghi\rjkl\nmno\r\npqr\r\n\r\nstu",
        false,
    );
    case("handler::with_status", get, Some(Box::new(|_| Response::new(200).with_status(201))), None, b"HTTP/1.1 201 Created\r\ncontent-length: 0\r\n\r\n", false);
    case(
        "handler::with_type_and_body",
        get,
        Some(Box::new(|_| Response::text(200, "yo").with_type(ContentType::Markdown))),
        None,
        b"HTTP/1.1 200 OK\r\ncontent-type: text/markdown; charset=UTF-8\r\ncontent-length: 2\r\n\r\nyo",
        false,
    );
    case(
        "handler::with_duplicate_header_different_case",
        get,
        Some(Box::new(|_| Response::new(200).with_header("h1", "v1".try_into().unwrap()).with_header("H1", "v2".try_into().unwrap()))),
        None,
        b"HTTP/1.1 200 OK\r\ncontent-length: 0\r\nh1: v1\r\nH1: v2\r\n\r\n",
        false,
    );
    case("handler::method_not_allowed_405", get, Some(Box::new(|_| Response::method_not_allowed_405(&["GET"]))), None, b"HTTP/1.1 405 Method Not Allowed\r\ncontent-length: 0\r\nallow: GET\r\n\r\n", false);
    case("handler::connection_close_on_5xx", get, Some(Box::new(|_| Response::new(500))), None, b"HTTP/1.1 500 Internal Server Error\r\nconnection: close\r\ncontent-length: 0\r\n\r\n", false);
    case(
        "handler::duplicate_content_type_header",
        get,
        Some(Box::new(|_| Response::text(200, "t1").with_header("Content-type", "text/plain".try_into().unwrap()))),
        None,
        b"HTTP/1.1 500 ",
        true,
    );
    case("handler::return_drop", get, Some(Box::new(|_| Response::drop_connection())), None, b"", false);
    case(
        "handler::panics",
        get,
        Some(Box::new(|_| sim_core::deliberate_panic())),
        None,
        b"HTTP/1.1 500 Internal Server Error\r\ncontent-type: text/plain; charset=UTF-8\r\nconnection: close\r\ncontent-length: 12\r\n\r\nServer error",
        false,
    );
    case(
        "handler::body_not_pending",
        b"M / HTTP/1.1\r\ncontent-length:3\r\n\r\nabc",
        Some(Box::new(|_| Response::get_body_and_reprocess(100))),
        None,
        b"HTTP/1.1 500 Internal Server Error\r\ncontent-type: text/plain; charset=UTF-8\r\nconnection: close\r\ncontent-length: 21\r\n\r\nInternal server error",
        false,
    );
    case(
        "handler::unsupported_transfer_encoding",
        b"M / HTTP/1.1\r\ntransfer-encoding: unknown1\r\n\r\n",
        Some(Box::new(|_| Response::new(200))),
        None,
        b"HTTP/1.1 400 Bad Request\r\ncontent-type: text/plain; charset=UTF-8\r\ncontent-length: 38\r\n\r\nHttpError::UnsupportedTransferEncoding",
        false,
    );
    case(
        "handler::chunked_not_supported",
        b"M / HTTP/1.1\r\ntransfer-encoding:chunked\r\n\r\n3\r\nabc\r\n0\r\n\r\n",
        None,
        Some(handler::Plan { on_pending: handler::OnPending::GetBody(100), on_ready: handler::OnReady::Respond, resp: handler::RespSpec::simple(200) }),
        b"HTTP/1.1 400 Bad Request\r\ncontent-type: text/plain; charset=UTF-8\r\ncontent-length: 38\r\n\r\nHttpError::UnsupportedTransferEncoding",
        false,
    );
    case("handler::content_length_zero", b"M / HTTP/1.1\r\ncontent-length:0\r\n\r\n", Some(Box::new(|_| Response::new(200))), None, b"HTTP/1.1 200 OK\r\ncontent-length: 0\r\n\r\n", false);
    case(
        "handler::get_body (70001 > 70000)",
        format!("M / HTTP/1.1\r\ncontent-length:70001\r\n\r\n{}", "a".repeat(70_001)).as_bytes(),
        None,
        Some(handler::Plan { on_pending: handler::OnPending::GetBody(70_000), on_ready: handler::OnReady::Respond, resp: handler::RespSpec::simple(200) }),
        b"HTTP/1.1 413 Payload Too Large\r\ncontent-type: text/plain; charset=UTF-8\r\ncontent-length: 25\r\n\r\nUploaded data is too big.",
        false,
    );
    case(
        "event::already_closed",
        get,
        Some(Box::new(|_| {
            let (sender, response) = Response::event_stream();
            drop(sender);
            response
        })),
        None,
        b"HTTP/1.1 200 OK\r\ncontent-type: text/event-stream\r\ntransfer-encoding: chunked\r\n\r\n0\r\n\r\n",
        false,
    );
    case(
        "event::single_message + multiple_messages",
        get,
        Some(Box::new(|_| {
            let (mut sender, response) = Response::event_stream();
            sender.send(Event::Message("msg1".to_string()));
            sender.send(Event::custom("type1", "msg2".to_string()).unwrap());
            drop(sender);
            response
        })),
        None,
        b"HTTP/1.1 200 OK\r\ncontent-type: text/event-stream\r\ntransfer-encoding: chunked\r\n\r\nb\r\ndata: msg1\n\r\n18\r\nevent: type1\ndata: msg2\n\r\n0\r\n\r\n",
        false,
    );
    if failures.is_empty() {
        println!("conformance: {n} transcribed suite scenarios give byte-identical transcripts in simulation");
        0
    } else {
        for f in &failures {
            println!("CONFORMANCE-MISMATCH {f}");
        }
        2
    }
}
