#![allow(dead_code)]
mod conformance;
mod driver;
mod engine;
mod gen;
mod oracle;
mod run;
mod scen;
mod spec;
mod util;

use run::Tier;
use std::path::Path;

fn usage() -> i32 {
    eprintln!("usage: simcheck check <ID> quick|thorough | replay <file> | worker ... | list");
    2
}

fn main() {
    let args: Vec<String> = std::env::args().collect();
    let code = match args.get(1).map(String::as_str) {
        Some("check") if args.len() >= 4 => {
            let tier = if args[3] == "thorough" { Tier::Thorough } else { Tier::Quick };
            driver::check_main(&args[2], tier)
        }
        Some("worker") if args.len() >= 7 => {
            let tier = if args[3] == "thorough" { Tier::Thorough } else { Tier::Quick };
            driver::worker_main(
                &args[2],
                tier,
                args[4].parse().unwrap_or(0),
                args[5].parse().unwrap_or(1),
                Path::new(&args[6]),
            )
        }
        Some("fingerprint") if args.len() >= 9 => {
            let tier = if args[3] == "thorough" { Tier::Thorough } else { Tier::Quick };
            driver::fingerprint_main(
                &args[2],
                tier,
                args[4].parse().unwrap_or(0),
                args[5].parse().unwrap_or(0),
                args[6].parse().unwrap_or(0),
                args[7].parse().unwrap_or(1),
                Path::new(&args[8]),
            )
        }
        Some("replay") if args.len() >= 3 => driver::replay_main(Path::new(&args[2])),
        Some("conformance") => conformance::main(),
        Some("list") => {
            for id in spec::all_property_ids() {
                println!("{id}");
            }
            0
        }
        _ => usage(),
    };
    std::process::exit(code);
}
