fn main() {
    println!("skeleton");
}
