//! Registry: which scenarios decide which property, and the static parts of the evidence.

use crate::run::Scenario;
use serde_json::{json, Value};

pub struct PropertySpec {
    pub id: &'static str,
    pub level: &'static str,
    pub rule: &'static str,
    pub scenarios: Vec<Scenario>,
    pub required_probes: Vec<&'static str>,
    pub components: Value,
    pub assumptions: Vec<&'static str>,
}

pub fn components_server() -> Value {
    json!({
        "real": ["/repo/src/** (unmodified, compiled from the working tree)", "fixed-buffer", "futures-lite", "futures-io", "url", "safe-regex", "permit", "temp-file", "temp-dir", "safina::sync (channels, oneshot)"],
        "simulated": ["safina::executor::{spawn, schedule_blocking}", "safina::timer::sleep_for (virtual clock)", "async_net::{TcpListener, TcpStream} (in-process TCP)", "async_fs::File (real std::fs + fault plan)"],
        "absent": ["kernel TCP, epoll, real thread pools"]
    })
}

pub fn components_stream() -> Value {
    json!({
        "real": ["/repo/src/** (unmodified)", "fixed-buffer", "futures-lite", "safina::sync"],
        "simulated": ["the AsyncRead / AsyncWrite arguments (scripted reader and writer driven by the tape)", "async_fs::File (real std::fs + fault plan)"],
        "absent": ["sockets", "executor (futures are polled by the harness)"]
    })
}

pub fn all_property_ids() -> Vec<&'static str> {
    #[cfg(servlin_verif)]
    return vec!["C19"];
    #[cfg(not(servlin_verif))]
    vec!["C01", "C03", "C04", "C05", "C06", "C07", "C08", "C09", "C10", "C11", "C12", "C13", "C18"]
}

pub fn property_spec(id: &str) -> Option<PropertySpec> {
    match id {
        "C01" => Some(crate::scen::c01::spec()),
        "C03" => Some(crate::scen::c03::spec()),
        "C04" => Some(crate::scen::c04::spec()),
        "C05" => Some(crate::scen::c05::spec()),
        "C06" => Some(crate::scen::c06::spec()),
        "C07" => Some(crate::scen::c07::spec()),
        "C08" => Some(crate::scen::c08::spec()),
        "C09" => Some(crate::scen::c09::spec()),
        "C10" => Some(crate::scen::c10::spec()),
        "C11" => Some(crate::scen::c11::spec()),
        "C12" => Some(crate::scen::c12::spec()),
        "C13" => Some(crate::scen::c13::spec()),
        "C18" => Some(crate::scen::c18::spec()),
        #[cfg(servlin_verif)]
        "C19" => Some(crate::scen::c19::spec()),
        _ => None,
    }
}
