//! Substitute for `async-fs`: `File::{open, create}` + `AsyncRead`/`AsyncWrite`, a thin
//! wrapper over real `std::fs` files with the run's fault plan and byte accounting
//! applied on top (DESIGN.md 2.6).
#![forbid(unsafe_code)]

use futures_io::{AsyncRead, AsyncWrite};
use std::io::{self, Read, Write};
use std::path::Path;
use std::pin::Pin;
use std::task::{Context, Poll};

#[derive(Debug)]
pub struct File {
    inner: std::fs::File,
    /// Creation index (for files made with `create`) or open index (for `open`).
    idx: usize,
    created: bool,
    closed: bool,
}

fn err(kind: io::ErrorKind) -> io::Error {
    io::Error::new(kind, "simulated file fault")
}

impl File {
    pub async fn open(path: impl AsRef<Path>) -> io::Result<File> {
        let p = path.as_ref().to_path_buf();
        let fault = sim_core::with(|w| {
            if w.fs.open_faults.is_empty() {
                None
            } else {
                w.count("fault.fs_open");
                Some(w.fs.open_faults.remove(0))
            }
        });
        if let Some(kind) = fault {
            return Err(err(kind));
        }
        let inner = std::fs::File::open(&p)?;
        let idx = sim_core::with(|w| {
            w.fs.opened.push(p.to_string_lossy().to_string());
            w.fs.bytes_read.push(0);
            w.fs.open_handles += 1;
            w.fs.opened.len() - 1
        });
        Ok(File {
            inner,
            idx,
            created: false,
            closed: false,
        })
    }

    pub async fn create(path: impl AsRef<Path>) -> io::Result<File> {
        let p = path.as_ref().to_path_buf();
        let fault = sim_core::with(|w| {
            if w.fs.create_faults.is_empty() {
                None
            } else {
                w.count("fault.fs_create");
                Some(w.fs.create_faults.remove(0))
            }
        });
        if let Some(kind) = fault {
            return Err(err(kind));
        }
        let inner = std::fs::File::create(&p)?;
        let idx = sim_core::with(|w| {
            w.fs.created.push(p.to_string_lossy().to_string());
            w.fs.bytes_written.push(0);
            w.fs.open_handles += 1;
            w.log(sim_core::Ev::FileCreated(p.to_string_lossy().to_string()));
            w.fs.created.len() - 1
        });
        Ok(File {
            inner,
            idx,
            created: true,
            closed: false,
        })
    }
}
impl Drop for File {
    fn drop(&mut self) {
        let _ = sim_core::try_with(|w| w.fs.open_handles -= 1);
    }
}

fn spurious(cx: &mut Context<'_>) -> bool {
    let sp = sim_core::with(|w| {
        let p = w.fs.spurious_pending_64;
        p > 0 && w.tape.ratio(p, 64)
    });
    if sp {
        cx.waker().wake_by_ref();
    }
    sp
}

fn io_len(limit: usize) -> usize {
    sim_core::with(|w| {
        if w.fs.short_io && limit > 1 && w.tape.ratio(1, 2) {
            1 + w.tape.below(limit.min(u32::MAX as usize) as u32) as usize
        } else {
            limit
        }
    })
}

impl AsyncRead for File {
    fn poll_read(mut self: Pin<&mut Self>, cx: &mut Context<'_>, buf: &mut [u8]) -> Poll<io::Result<usize>> {
        if buf.is_empty() {
            return Poll::Ready(Ok(0));
        }
        if spurious(cx) {
            return Poll::Pending;
        }
        let idx = self.idx;
        let mut lim = buf.len();
        if !self.created {
            let fault = sim_core::with(|w| w.fs.read_fail_at.get(&idx).copied().map(|(at, k)| (at, k, w.fs.bytes_read[idx])));
            if let Some((at, kind, done)) = fault {
                if done >= at {
                    sim_core::with(|w| w.count("fault.fs_read"));
                    return Poll::Ready(Err(err(kind)));
                }
                lim = lim.min(((at - done) as usize).max(1));
            }
        }
        if !self.created {
            let shrink = sim_core::with(|w| match w.fs.shrink_after.get(&idx).copied() {
                Some((after, to)) if w.fs.bytes_read[idx] >= after => {
                    w.fs.shrink_after.remove(&idx);
                    w.count("fault.fs_file_shrinks_while_read");
                    Some(to)
                }
                Some((after, _)) => {
                    lim = lim.min(((after - w.fs.bytes_read[idx]) as usize).max(1));
                    None
                }
                None => None,
            });
            if let Some(to) = shrink {
                // (through a second, writable handle: ours is read-only)
                let path = sim_core::with(|w| w.fs.opened.get(idx).cloned());
                if let Some(p) = path {
                    if let Ok(f) = std::fs::OpenOptions::new().write(true).open(&p) {
                        let _ = f.set_len(to);
                    }
                }
            }
        }
        let n = io_len(lim);
        let r = self.inner.read(&mut buf[..n]);
        if let Ok(k) = &r {
            if !self.created {
                let k = *k as u64;
                sim_core::with(|w| w.fs.bytes_read[idx] += k);
            }
        }
        Poll::Ready(r)
    }
}
impl AsyncWrite for File {
    fn poll_write(mut self: Pin<&mut Self>, cx: &mut Context<'_>, buf: &[u8]) -> Poll<io::Result<usize>> {
        if buf.is_empty() {
            return Poll::Ready(Ok(0));
        }
        if spurious(cx) {
            return Poll::Pending;
        }
        let idx = self.idx;
        let mut lim = buf.len();
        if self.created {
            let fault = sim_core::with(|w| w.fs.write_fail_at.get(&idx).copied().map(|(at, k)| (at, k, w.fs.bytes_written[idx])));
            if let Some((at, kind, done)) = fault {
                if done >= at {
                    sim_core::with(|w| w.count("fault.fs_write"));
                    return Poll::Ready(Err(err(kind)));
                }
                lim = lim.min(((at - done) as usize).max(1));
            }
        }
        let n = io_len(lim);
        let r = self.inner.write(&buf[..n]);
        if let Ok(k) = &r {
            if self.created {
                let k = *k as u64;
                sim_core::with(|w| {
                    w.fs.bytes_written[idx] += k;
                    if w.fs.bytes_written[idx] > w.fs.max_single_file_written {
                        w.fs.max_single_file_written = w.fs.bytes_written[idx];
                    }
                });
            }
        }
        Poll::Ready(r)
    }
    fn poll_flush(mut self: Pin<&mut Self>, _cx: &mut Context<'_>) -> Poll<io::Result<()>> {
        Poll::Ready(self.inner.flush())
    }
    fn poll_close(mut self: Pin<&mut Self>, _cx: &mut Context<'_>) -> Poll<io::Result<()>> {
        if self.closed {
            return Poll::Ready(Ok(()));
        }
        self.closed = true;
        let idx = self.idx;
        if self.created {
            if let Some(kind) = sim_core::with(|w| w.fs.close_fail.remove(&idx)) {
                sim_core::with(|w| w.count("fault.fs_close"));
                return Poll::Ready(Err(err(kind)));
            }
        }
        Poll::Ready(self.inner.flush())
    }
}

// ---------------------------------------------------------------------------------------
// The rest of the `async-fs` surface a change to /repo/src might plausibly start using.
// Thin wrappers over `std::fs` (a code change that uses them must still compile in
// simulation); they take no faults.

impl File {
    pub async fn sync_all(&self) -> io::Result<()> {
        self.inner.sync_all()
    }
    pub async fn sync_data(&self) -> io::Result<()> {
        self.inner.sync_data()
    }
    pub async fn set_len(&self, size: u64) -> io::Result<()> {
        self.inner.set_len(size)
    }
    pub async fn metadata(&self) -> io::Result<std::fs::Metadata> {
        self.inner.metadata()
    }
}

pub async fn remove_file(path: impl AsRef<Path>) -> io::Result<()> {
    std::fs::remove_file(path)
}
pub async fn remove_dir(path: impl AsRef<Path>) -> io::Result<()> {
    std::fs::remove_dir(path)
}
pub async fn remove_dir_all(path: impl AsRef<Path>) -> io::Result<()> {
    std::fs::remove_dir_all(path)
}
pub async fn rename(from: impl AsRef<Path>, to: impl AsRef<Path>) -> io::Result<()> {
    std::fs::rename(from, to)
}
pub async fn copy(from: impl AsRef<Path>, to: impl AsRef<Path>) -> io::Result<u64> {
    std::fs::copy(from, to)
}
pub async fn read(path: impl AsRef<Path>) -> io::Result<Vec<u8>> {
    std::fs::read(path)
}
pub async fn read_to_string(path: impl AsRef<Path>) -> io::Result<String> {
    std::fs::read_to_string(path)
}
pub async fn write(path: impl AsRef<Path>, contents: impl AsRef<[u8]>) -> io::Result<()> {
    std::fs::write(path, contents)
}
pub async fn create_dir(path: impl AsRef<Path>) -> io::Result<()> {
    std::fs::create_dir(path)
}
pub async fn create_dir_all(path: impl AsRef<Path>) -> io::Result<()> {
    std::fs::create_dir_all(path)
}
pub async fn metadata(path: impl AsRef<Path>) -> io::Result<std::fs::Metadata> {
    std::fs::metadata(path)
}
pub async fn symlink_metadata(path: impl AsRef<Path>) -> io::Result<std::fs::Metadata> {
    std::fs::symlink_metadata(path)
}
pub async fn canonicalize(path: impl AsRef<Path>) -> io::Result<std::path::PathBuf> {
    std::fs::canonicalize(path)
}
pub async fn hard_link(from: impl AsRef<Path>, to: impl AsRef<Path>) -> io::Result<()> {
    std::fs::hard_link(from, to)
}
