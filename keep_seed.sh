#!/bin/bash
# keep_seed.sh <worktree> <seed-name> <property> "<needs>" : stores a confirmed seeded change under /verif/seeded/<name>/
set -eu
wt="$1"; name="$2"; prop="$3"; needs="$4"
d=/verif/seeded/$name; mkdir -p "$d"
( cd "$wt" && git diff -- src/ > "$d/patch.diff" ); [ -s "$d/patch.diff" ] || cp "$wt/patch.diff" "$d/patch.diff"
cp "$wt/tests/seeded_demo.rs" "$d/seeded_demo.rs"
[ -f "$wt/REPORT.md" ] && cp "$wt/REPORT.md" "$d/REPORT.md" || true
python3 - "$d" "$prop" "$needs" <<'PY'
import json,sys,subprocess
d,prop,needs=sys.argv[1:4]
meta={"breaks_property":prop,"needs_to_manifest":needs,
 "confirmed_by":"verify_seed.sh in the sub-agent's scratch worktree: demo FAILS with the change, PASSES without it, the 80 stable baseline tests pass with it",
 "base_commit":subprocess.check_output(['git','-C','/repo','rev-parse','--short','HEAD']).decode().strip(),
 "detected_by":[], "ran":[]}
json.dump(meta,open(d+'/meta.json','w'),indent=1)
PY
echo kept $d
