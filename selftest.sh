#!/bin/bash
# ./check selftest determinism [N] [IDs...]  : every scenario's first N runs are executed
# in three process layouts (1 process; 16 processes interleaved; 5 processes interleaved,
# started in reverse order) and the per-run fingerprints (schedule hash, tape hash, steps,
# virtual time, verdict, counters) are diffed. Any difference is a harness bug.
set -u
cd "$(dirname "$0")"
mode="${1:-determinism}"; shift || true
BIN=./target/release/simcheck
case "$mode" in
 determinism)
  N="${1:-2000}"; shift || true
  ids=("$@"); if [ ${#ids[@]} -eq 0 ]; then mapfile -t ids < <($BIN list; echo C19); fi
  tmp=$(mktemp -d /dev/shm/simdet.XXXXXX); rc=0
  for id in "${ids[@]}"; do
    BIN=./target/release/simcheck; [ "$id" = C19 ] && BIN=./target-hooks/release/simcheck
    $BIN fingerprint "$id" quick 0 "$N" 0 1 "$tmp/a.txt" >/dev/null 2>&1 &
    for k in $(seq 0 15); do $BIN fingerprint "$id" quick 0 "$N" "$k" 16 "$tmp/b.$k" >/dev/null 2>&1 & done
    wait
    for k in 4 3 2 1 0; do $BIN fingerprint "$id" quick 0 "$N" "$k" 5 "$tmp/c.$k" >/dev/null 2>&1 & done
    wait
    sort -k1,1 -k2,2n "$tmp/a.txt" > "$tmp/A"; cat "$tmp"/b.* | sort -k1,1 -k2,2n > "$tmp/B"; cat "$tmp"/c.* | sort -k1,1 -k2,2n > "$tmp/C"
    la=$(wc -l < "$tmp/A")
    if cmp -s "$tmp/A" "$tmp/B" && cmp -s "$tmp/A" "$tmp/C" && [ "$la" -gt 0 ]; then
      echo "determinism $id: $la runs x 3 process layouts identical"
    else
      echo "determinism $id: DIVERGENCE"; diff "$tmp/A" "$tmp/B" | head -5; diff "$tmp/A" "$tmp/C" | head -5; rc=2
    fi
    rm -f "$tmp"/*
  done
  rm -rf "$tmp"; exit $rc ;;
 conformance)
  exec ./target/release/simcheck conformance ;;
 seeds)
  exec ./seedall.sh ;;
 *) echo "unknown selftest $mode"; exit 2 ;;
esac
