#!/bin/bash
# benignall.sh [glob]: every stored property-preserving change against ALL quick checks. Exit 0 iff every check stays quiet.
cd "$(dirname "$0")"
export VERIF_WATCHDOG_SECS="${VERIF_WATCHDOG_SECS:-60}"
rc=0
for d in benign/${1:-*}.diff; do
  echo "== $d"
  ./benigntest.sh "$(pwd)/$d" || rc=1
done
if [ -n "$(git -C /repo status --porcelain -- src)" ]; then echo "WARNING: /repo/src is dirty"; rc=2; fi
exit $rc
