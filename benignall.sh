#!/bin/bash
# benignall.sh [glob]: every stored property-preserving change against the quick checks.
# A change is preserving for the property its author was given; benign/<name>.skip lists
# checks of OTHER properties it is not preserving for (with the reason), which are not run.
# Exit 0 iff every check that is run stays quiet.
cd "$(dirname "$0")"
export VERIF_WATCHDOG_SECS="${VERIF_WATCHDOG_SECS:-60}"
all=(C01 C03 C04 C05 C06 C07 C08 C09 C10 C11 C12 C13 C18 C19)
rc=0
for d in benign/${1:-*}.diff; do
  echo "== $d"
  skip=""; [ -f "${d%.diff}.skip" ] && skip=$(grep -v '^#' "${d%.diff}.skip" | awk '{print $1}' | tr '\n' ' ')
  ids=(); for id in "${all[@]}"; do case " $skip " in *" $id "*) echo "$id: skipped (see ${d%.diff}.skip)";; *) ids+=("$id");; esac; done
  ./benigntest.sh "$(pwd)/$d" "${ids[@]}" || rc=1
done
if [ -n "$(git -C /repo status --porcelain -- src)" ]; then echo "WARNING: /repo/src is dirty"; rc=2; fi
exit $rc
